#!/usr/bin/env python3
import json,sys
r=json.load(open(sys.argv[1]))
print(r.get('check'), r.get('signature')); print(r['message'])
def walk(c, depth=0):
    if isinstance(c, dict):
        if 'Generated' in c:
            g=c['Generated']; print(' '*depth+'Generated', {k:g[k] for k in ['sampling_frequency','frame_period','num_states','stage','use_log_gain','alpha','gv_off_context']}); print(' '*depth, [(s['name'],s['vector_length'],'gv' if s['use_gv'] else '',s['options'],[len(w) for w in s['windows']]) for s in g['streams']]); return
        for k,v in c.items():
            if isinstance(v,(dict,list)) and k not in ('labels',):
                print(' '*depth+k+':'); walk(v, depth+2)
            else:
                print(' '*depth+k+':', json.dumps(v)[:600])
    elif isinstance(c, list):
        print(' '*depth+json.dumps(c)[:800])
walk(r['case'])
