#!/bin/bash
# usage: tools/seed_verify.sh <ID> <srcdir-with-seed/> <name>
# Independently re-verifies a seeded change in a fresh scratch worktree, stores it under
# /verif/seeded/<name>/ and runs the property's quick check against it.
set -u
ID="$1"; SRC="$2"; NAME="$3"
DEST=/verif/seeded/$NAME; mkdir -p "$DEST"
cp "$SRC"/seed/patch.diff "$DEST/patch.diff"
cp "$SRC"/seed/NOTES.md "$DEST/NOTES.md" 2>/dev/null
DEMO=$(ls "$SRC"/seed/*.rs | head -1); cp "$DEMO" "$DEST/$(basename "$DEMO")"
W=/tmp/seedcheck-$$; git -C /repo worktree add -q --detach "$W" HEAD || exit 2
cleanup() { git -C /repo worktree remove --force "$W" 2>/dev/null; rm -rf "$W"; }
trap cleanup EXIT
cd "$W"
mkdir -p examples tests
# place the demo where the agent had it
if grep -q "fn main" "$DEMO"; then cp "$DEMO" examples/seed_demo.rs; RUN="cargo run --offline --quiet --example seed_demo"; else cp "$DEMO" tests/seed_demo.rs; RUN="cargo test --offline --quiet --test seed_demo"; fi
$RUN >"$DEST/demo_without.log" 2>&1; rc_without=$?
git apply "$DEST/patch.diff" || { echo "$NAME: patch does not apply"; exit 2; }
cargo build --offline >"$DEST/build.log" 2>&1; rc_build=$?
cargo test --offline --lib >"$DEST/tests_with.log" 2>&1
passed=$(grep -a "test result" "$DEST/tests_with.log" | sed -E 's/.* ([0-9]+) passed; ([0-9]+) failed.*/\1 \2/')
$RUN >"$DEST/demo_with.log" 2>&1; rc_with=$?
cd /verif
out=$(tools/mutant.sh "$DEST/patch.diff" "$ID" 2>&1)
echo "$NAME: build=$rc_build tests(passed failed)=[$passed] demo_without=$rc_without demo_with=$rc_with"
echo "  check: $out"
python3 - "$DEST" "$ID" "$NAME" "$rc_build" "$passed" "$rc_without" "$rc_with" "$out" <<'PY'
import json,sys,os
dest,pid,name,rcb,passed,rcwo,rcw,out=sys.argv[1:9]
meta={"property":pid,"name":name,"verified":{"builds":rcb=="0","suite_passed_failed":passed,"demo_exit_without_change":int(rcwo),"demo_exit_with_change":int(rcw)},
      "check_result":out.strip(),"what_was_run":["git worktree add (fresh) ; demo without the change","git apply patch.diff ; cargo build --offline ; cargo test --offline --lib ; demo with the change","tools/mutant.sh patch.diff "+pid+" (git -C /repo apply, ./run.sh "+pid+" quick, git checkout)"]}
notes=os.path.join(dest,"NOTES.md")
meta["needs_to_manifest"]="see NOTES.md" if os.path.exists(notes) else ""
json.dump(meta,open(os.path.join(dest,"meta.json"),"w"),indent=1)
PY
