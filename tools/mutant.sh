#!/bin/bash
# usage: tools/mutant.sh <patch.diff> <ID> [<ID> ...]
# Applies a patch to /repo's working tree, runs the quick check of each property, reverts.
# Prints one line per check: "<patch> <ID> exit=<code>"; expected: exit=1 (violation detected).
set -u
PATCH="$(realpath "$1")"; shift
cd /repo || exit 2
if ! git diff --quiet; then echo "refusing: /repo has uncommitted changes"; exit 2; fi
cleanup() { git -C /repo checkout -- . ; }
trap cleanup EXIT
if ! git apply "$PATCH" 2>/dev/null && ! git apply --3way "$PATCH" 2>/dev/null; then echo "$(basename "$PATCH") DOES-NOT-APPLY"; exit 2; fi; git reset -q 2>/dev/null
rm -rf /dev/shm/verif-mut; mkdir -p /dev/shm/verif-mut/replays
cp /verif/known_findings.json /dev/shm/verif-mut/ 2>/dev/null
[ -d /verif/replays/regress ] && cp -r /verif/replays/regress /dev/shm/verif-mut/replays/
for ID in "$@"; do
    out="$(cd /verif && VERIF_DIR=/dev/shm/verif-mut VERIF_MAX_SHRINK=60 ./run.sh "$ID" quick 2>&1)"; rc=$?
    echo "$(basename "$PATCH") $ID exit=$rc $(echo "$out" | grep -m1 -A1 '^  check=' | tr '\n' ' ' | cut -c1-260)"
done
