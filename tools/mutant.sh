#!/bin/bash
# usage: tools/mutant.sh <patch.diff> <ID> [<ID> ...]
# Applies a patch to /repo's working tree, runs the quick check of each property, reverts.
# Prints one line per check: "<patch> <ID> exit=<code>"; expected: exit=1 (violation detected).
set -u
PATCH="$(realpath "$1")"; shift
REPO="${MUT_REPO:-/repo}"; VH="${MUT_VERIF:-/verif}"; OUT="${MUT_OUT:-/dev/shm/verif-mut}"
cd "$REPO" || exit 2
if ! git diff --quiet; then echo "refusing: $REPO has uncommitted changes"; exit 2; fi
cleanup() { git -C "$REPO" checkout -- . ; }
trap cleanup EXIT
if ! git apply "$PATCH" 2>/dev/null && ! git apply --3way "$PATCH" 2>/dev/null; then echo "$(basename "$PATCH") DOES-NOT-APPLY"; exit 2; fi; git reset -q 2>/dev/null
rm -rf "$OUT"; mkdir -p "$OUT/replays"
cp "$VH/known_findings.json" "$OUT/" 2>/dev/null
[ -d "$VH/replays/regress" ] && cp -r "$VH/replays/regress" "$OUT/replays/"
for ID in "$@"; do
    out="$(cd "$VH" && VERIF_REPO="$REPO" VERIF_DIR="$OUT" VERIF_MAX_SHRINK=60 ./run.sh "$ID" quick 2>&1)"; rc=$?
    echo "$(basename "$PATCH") $ID exit=$rc $(echo "$out" | grep -m1 -A1 '^  check=' | tr '\n' ' ' | cut -c1-260)"
done
