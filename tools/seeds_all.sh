#!/bin/bash
# Re-runs every seeded change and every mutant against the check(s) that should catch it.
# Works on /repo and /verif by default; set MUT_REPO / MUT_VERIF / MUT_OUT to run on scratch copies
# (a clone of /repo and a copy of /verif) in parallel with other work.
VH="${MUT_VERIF:-$(cd "$(dirname "$0")/.." && pwd)}"
cd "$VH" || exit 2
for d in seeded/*/; do
  n=$(basename $d); id=${n%%-*}
  # some seeds are caught by a neighbouring property's check (see seeded/README.md)
  # (C12-c lies outside its quantifier and C14-m is not closed: both are expected to print exit=0)
  case $n in C12-b) ids="C10";; C02-h) ids="C01 C03";; C08-l) ids="C04";; C11-h|C11-j) ids="C07";; C11-i) ids="C05";; C12-m) ids="C04";; C10-n) ids="C19";; C11-n) ids="C04";; C17-h) ids="C09";; *) ids="$id";; esac
  echo "$n: $(tools/mutant.sh $d/patch.diff $ids | cut -c1-170)"
done
for m in mutants/*.diff; do
  n=$(basename $m .diff)
  case $n in
    revert-fix-c18-*) id=C18;; revert-fix-gv) id=C01;; revert-fix-load-model-leftover) id="C04 C01";; revert-fix-c*) id=$(echo $n | sed 's/revert-fix-c\([0-9]*\)/C\1/');;
    c03-setter-coupling) id="C20 C03";;
    c[0-9][0-9]-*) id=C${n:1:2};;
  esac
  tools/mutant.sh $m $id | cut -c1-170
done
