#!/bin/bash
# usage: tools/fuzz_campaign.sh <ID> <target> <sub-check|-> <total-runs> <seed> [procs]
# Bounded libFuzzer campaign with the property's oracle inside the target. Fresh corpus directory
# seeded by `check gen-corpus`. Prints "FUZZ <target> execs=<n> crashes=<n>"; on a crash prints a
# VIOLATION line with a replay file and exits 1. exit 2 = could not build / run (inconclusive).
# Inputs on which a worker hit libFuzzer's per-input limits are re-run alone: if they pass, the
# campaign counts as held (the worker explored less than its budget).
set -u
ID="$1"; TARGET="$2"; SUB="$3"; RUNS="$4"; SEED="$5"; PROCS="${6:-16}"
HERE="$(cd "$(dirname "$0")/.." && pwd)"
export CARGO_NET_OFFLINE=true
TD="$HERE/target/fuzz"
cd "$HERE/harness" || exit 2
# NB: the fuzz targets always build against /repo (cargo-fuzz does not take --config)
if ! cargo +nightly fuzz build "$TARGET" --target-dir "$TD" >"$HERE/target/fuzz-build.log" 2>&1; then
    echo "INCONCLUSIVE: fuzz target $TARGET does not build (see target/fuzz-build.log)"; tail -n 20 "$HERE/target/fuzz-build.log"; exit 2
fi
BIN="$TD/x86_64-unknown-linux-gnu/release/$TARGET"
[ -x "$BIN" ] || { echo "INCONCLUSIVE: $BIN missing"; exit 2; }
WORK="$HERE/target/fuzz-work/$TARGET-$$"; rm -rf "$WORK"; mkdir -p "$WORK/corpus" "$WORK/artifacts" "$WORK/seeds"
"$HERE/target/release/check" gen-corpus "$WORK/seeds" >/dev/null 2>&1
cp "$WORK/seeds/$TARGET"/* "$WORK/corpus/" 2>/dev/null
PER=$(( RUNS / PROCS ))
pids=()
for k in $(seq 1 "$PROCS"); do
    VERIF_DIR="$HERE" "$BIN" "$WORK/corpus" -runs="$PER" -seed=$(( SEED * 1000 + k )) -len_control=0 -max_len=49152 \
        -artifact_prefix="$WORK/artifacts/" -timeout=600 -rss_limit_mb=4096 -print_final_stats=1 >"$WORK/log.$k" 2>&1 &
    pids+=($!)
done
for p in "${pids[@]}"; do wait "$p"; done
# libFuzzer workers leave through _exit: remove their run-private scratch directories
for p in "${pids[@]}"; do rm -rf "/dev/shm/jbverif-$p" "$HERE/target/tmp/jbverif-$p"; done
EXECS=$(grep -a -h "stat::number_of_executed_units" "$WORK"/log.* | awk '{s+=$2} END {print s+0}')
NEWU=$(ls "$WORK/corpus" | wc -l)
# slow-unit-* files are libFuzzer's notes about inputs that took long (on a loaded machine: many);
# they are not failures
rm -f "$WORK/artifacts"/slow-unit-*
CRASHES=$(ls "$WORK/artifacts" 2>/dev/null | wc -l)
STOPPED=0
rc=0
if [ "$CRASHES" -gt 0 ]; then
    mkdir -p "$HERE/replays"
    for a in "$WORK/artifacts"/*; do
        case "$TARGET" in
            load_voice)
                cp "$a" "$HERE/replays/C18-fuzz-$(basename "$a").htsvoice"
                "$HERE/target/release/check" C18 --replay-bytes "$HERE/replays/C18-fuzz-$(basename "$a").htsvoice" && continue ;;
            label_text)
                cp "$a" "$HERE/replays/C17-fuzz-$(basename "$a").txt"
                echo "{\"kind\":\"label-text-file\",\"path\":\"$HERE/replays/C17-fuzz-$(basename "$a").txt\"}" > "$WORK/r.json"
                "$HERE/target/release/check" C17 --replay "$WORK/r.json" && continue ;;
            *)
                timeout 1800 "$HERE/target/release/check" "$ID" --fuzz-artifact "$SUB" "$a"; arc=$?
                if [ $arc -eq 124 ]; then
                    echo "INCONCLUSIVE: the input $a does not finish within 30 min when re-run alone (possible non-termination)"
                    exit 2
                fi
                [ $arc -eq 0 ] && { STOPPED=$((STOPPED + 1)); continue; } ;;
        esac
        rc=1
        break
    done
    if [ $rc -eq 0 ]; then
        # every input on which a libFuzzer worker stopped (its per-input time or memory limit, hit
        # under machine load) completes and satisfies the oracle when re-run alone: the property held
        # on everything explored; the stopped workers simply explored less than their budget
        echo "  note: $CRASHES libFuzzer worker(s) stopped early on inputs that pass when re-run alone (timeout/oom under load)"
        grep -a -h -m3 -E "ERROR|SUMMARY" "$WORK"/log.* | head -3 | sed 's/^/  /'
        STOPPED=$CRASHES
        CRASHES=0
    fi
fi
echo "FUZZ $TARGET execs=$EXECS corpus=$NEWU crashes=$CRASHES stopped_workers=$STOPPED procs=$PROCS seed=$SEED"
[ $rc -eq 0 ] && rm -rf "$WORK"
# machine-readable line for the evidence merger
echo "FUZZ-JSON {\"target\":\"$TARGET\",\"executions\":$EXECS,\"corpus_units\":$NEWU,\"crashes\":$CRASHES,\"workers_stopped_early\":$STOPPED,\"processes\":$PROCS,\"seed\":$SEED}"
exit $rc
