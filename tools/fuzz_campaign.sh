#!/bin/bash
# usage: tools/fuzz_campaign.sh <ID> <target> <sub-check|-> <total-runs> <seed> [procs]
# Bounded libFuzzer campaign with the property's oracle inside the target. Fresh corpus directory
# seeded by `check gen-corpus`. Prints "FUZZ <target> execs=<n> crashes=<n>"; on a crash prints a
# VIOLATION line with a replay file and exits 1. exit 2 = could not build / run (inconclusive).
set -u
ID="$1"; TARGET="$2"; SUB="$3"; RUNS="$4"; SEED="$5"; PROCS="${6:-16}"
HERE="$(cd "$(dirname "$0")/.." && pwd)"
export CARGO_NET_OFFLINE=true
TD="$HERE/target/fuzz"
cd "$HERE/harness" || exit 2
# NB: the fuzz targets always build against /repo (cargo-fuzz does not take --config)
if ! cargo +nightly fuzz build "$TARGET" --target-dir "$TD" >"$HERE/target/fuzz-build.log" 2>&1; then
    echo "INCONCLUSIVE: fuzz target $TARGET does not build (see target/fuzz-build.log)"; tail -n 20 "$HERE/target/fuzz-build.log"; exit 2
fi
BIN="$TD/x86_64-unknown-linux-gnu/release/$TARGET"
[ -x "$BIN" ] || { echo "INCONCLUSIVE: $BIN missing"; exit 2; }
WORK="$HERE/target/fuzz-work/$TARGET-$$"; rm -rf "$WORK"; mkdir -p "$WORK/corpus" "$WORK/artifacts" "$WORK/seeds"
"$HERE/target/release/check" gen-corpus "$WORK/seeds" >/dev/null 2>&1
cp "$WORK/seeds/$TARGET"/* "$WORK/corpus/" 2>/dev/null
PER=$(( RUNS / PROCS ))
pids=()
for k in $(seq 1 "$PROCS"); do
    VERIF_DIR="$HERE" "$BIN" "$WORK/corpus" -runs="$PER" -seed=$(( SEED * 1000 + k )) -len_control=0 -max_len=49152 \
        -artifact_prefix="$WORK/artifacts/" -timeout=60 -rss_limit_mb=4096 -print_final_stats=1 >"$WORK/log.$k" 2>&1 &
    pids+=($!)
done
for p in "${pids[@]}"; do wait "$p"; done
EXECS=$(grep -a -h "stat::number_of_executed_units" "$WORK"/log.* | awk '{s+=$2} END {print s+0}')
NEWU=$(ls "$WORK/corpus" | wc -l)
CRASHES=$(ls "$WORK/artifacts" 2>/dev/null | wc -l)
echo "FUZZ $TARGET execs=$EXECS corpus=$NEWU crashes=$CRASHES procs=$PROCS seed=$SEED"
rc=0
if [ "$CRASHES" -gt 0 ]; then
    mkdir -p "$HERE/replays"
    for a in "$WORK/artifacts"/*; do
        case "$TARGET" in
            load_voice)
                cp "$a" "$HERE/replays/C18-fuzz-$(basename "$a").htsvoice"
                "$HERE/target/release/check" C18 --replay-bytes "$HERE/replays/C18-fuzz-$(basename "$a").htsvoice" && continue ;;
            label_text)
                cp "$a" "$HERE/replays/C17-fuzz-$(basename "$a").txt"
                echo "{\"kind\":\"label-text-file\",\"path\":\"$HERE/replays/C17-fuzz-$(basename "$a").txt\"}" > "$WORK/r.json"
                "$HERE/target/release/check" C17 --replay "$WORK/r.json" && continue ;;
            *)
                "$HERE/target/release/check" "$ID" --fuzz-artifact "$SUB" "$a" && continue ;;
        esac
        rc=1
        break
    done
    if [ $rc -eq 0 ]; then
        echo "INCONCLUSIVE: libFuzzer stopped on $CRASHES input(s) (timeout/oom/abort) that do not reproduce as a violation: $WORK/artifacts"
        grep -a -h -m3 -E "ERROR|FUZZ-VIOLATION|SUMMARY" "$WORK"/log.* | head -5
        exit 2
    fi
fi
[ $rc -eq 0 ] && rm -rf "$WORK"
# machine-readable line for the evidence merger
echo "FUZZ-JSON {\"target\":\"$TARGET\",\"executions\":$EXECS,\"corpus_units\":$NEWU,\"crashes\":$CRASHES,\"processes\":$PROCS,\"seed\":$SEED}"
exit $rc
