#!/bin/bash
# usage: tools/run_all.sh [tier] [seed]  - runs every registered check, prints one line each
TIER="${1:-quick}"; export VERIF_SEED="${2:-0}"
cd "$(dirname "$0")/.."
for id in $(python3 -c "import json;print(' '.join(c['property_id'] for c in json.load(open('MANIFEST.json'))['checks']))"); do
  s=$(date +%s.%N)
  out=$(./run.sh $id $TIER 2>&1); rc=$?
  e=$(date +%s.%N)
  printf "%s rc=%d %.1fs %s\n" $id $rc $(echo "$e - $s" | bc) "$(echo "$out" | grep -E "^(VIOLATION|KNOWN-FINDING|INCONCLUSIVE)" | cut -c1-120 | tr '\n' ' ')"
done
