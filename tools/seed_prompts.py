#!/usr/bin/env python3
"""usage: tools/seed_prompts.py <round-number>
Writes /tmp/seed<round>-<ID>.prompt for every property: the task text given to a fresh sub-agent
(the text of ONE property, the scratch worktree /tmp/seed<round>-<ID>, and the one-line
descriptions of all earlier seeded changes for that property taken from seeded/README.md).
Template: seeded/PROMPT-example-round12-C05.txt."""
import json, re, sys
from pathlib import Path

here = Path(__file__).resolve().parent.parent
rnd = int(sys.argv[1])
props = {json.loads(l)['id']: json.loads(l) for l in open(here / 'properties.jsonl')}
prev = {}
for line in open(here / 'seeded/README.md'):
    m = re.match(r'\| (C\d\d)-([a-z]) \| (.*?) \| ', line)
    if m:
        prev.setdefault(m.group(1), []).append(m.group(3))
tpl = open(here / 'seeded/PROMPT-example-round12-C05.txt').read()
head_t = tpl[:tpl.index('The library is supposed to satisfy this property:')]
task_t = tpl[tpl.index('YOUR TASK:'):tpl.index(' - Eleven earlier engineers')]
tail_t = tpl[tpl.index('   Pick a DIFFERENT mechanism'):]
words = {1: 'One', 2: 'Two', 3: 'Three', 4: 'Four', 5: 'Five', 6: 'Six', 7: 'Seven', 8: 'Eight', 9: 'Nine', 10: 'Ten',
         11: 'Eleven', 12: 'Twelve', 13: 'Thirteen', 14: 'Fourteen', 15: 'Fifteen', 16: 'Sixteen'}
for pid, p in props.items():
    w = f'/tmp/seed{rnd}-{pid}'
    fix = lambda t: t.replace('/tmp/seed12-C05', w).replace('C05-r12.patch', f'{pid}-r{rnd}.patch')
    prop = (f"The library is supposed to satisfy this property:\n\n  {pid}: {p['title']}\n  Statement: {p['statement']}\n"
            f"  Quantified over: {p['quantifier']['text']}\n  Why the existing tests cannot settle it: {p.get('why_tests_cant', '')}\n\n")
    earlier = prev.get(pid, [])
    lst = ''.join(f'   * {x}\n' for x in earlier)
    intro = (f" - {words.get(len(earlier), str(len(earlier)))} earlier engineers already produced these changes for the same property; "
             "do NOT reuse them, their code sites, their mechanisms or their triggers:\n")
    tail = fix(tail_t).replace("single-character file corruptions)", "single-character file corruptions, utterances beyond 65535 frames and thousands of streaming steps, clones of live vocoders and generators, generators handed between threads, sub-slices of larger buffers, labels that differ in a single field group, values within 1e-8 of rounding ties, almost-off settings such as beta = 1e-4, extrapolating interpolation weights with negative blended variances, voices with shuffled tree order / a fourth stream / static-only windows / GV-off contexts on neighbouring phonemes)")
    open(f'{w}.prompt', 'w').write(fix(head_t) + prop + fix(task_t) + intro + lst + tail)
print('wrote', len(props), 'prompts for round', rnd, '; earlier changes per property:', sorted({len(v) for v in prev.values()}))
