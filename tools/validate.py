#!/usr/bin/env python3
"""Validate MANIFEST.json and every evidence file against the task's schemas (python3-vt has jsonschema)."""
import json, sys, glob, os
try:
    import jsonschema
except ImportError:
    os.execvp("python3-vt", ["python3-vt"] + sys.argv)
root = os.path.dirname(os.path.dirname(os.path.abspath(__file__)))
bad = 0
def check(path, schema):
    global bad
    try:
        jsonschema.validate(json.load(open(path)), json.load(open(schema)))
    except Exception as e:
        bad += 1
        print("INVALID", path, str(e).splitlines()[0])
check(os.path.join(root, "MANIFEST.json"), "/root/.vp/MANIFEST.schema.json")
m = json.load(open(os.path.join(root, "MANIFEST.json")))
ids = [json.loads(l)["id"] for l in open(os.path.join(root, "properties.jsonl"))]
claimed = [c["property_id"] for c in m["checks"]]
for f in sorted(glob.glob(os.path.join(root, "evidence", "*.json"))):
    check(f, "/root/.vp/EVIDENCE.schema.json")
na = [x.get("property_id", x.get("id")) if isinstance(x, dict) else x for x in m.get("not_applicable", [])]
missing = [i for i in ids if i not in claimed and i not in na]
if missing:
    bad += 1
    print("properties neither claimed nor not_applicable:", missing)
print("ok" if not bad else f"{bad} problem(s)")
sys.exit(1 if bad else 0)
