#!/usr/bin/env python3
"""Regenerates /verif/MANIFEST.json from the table below (kept in one place so that the manifest,
the list of claimed properties and not_applicable stay consistent)."""
import json, os, subprocess

HERE = os.path.dirname(os.path.dirname(os.path.abspath(__file__)))

# id -> (level category, technique, level text, level note, design ref)
CHECKS = {
 "C04": ("exploration", "differential PBT: loaded voice vs independent .htsvoice reader + glob tree walk, generated voice files (round-trip through own writer)",
         "Thousands of generated labels against all 18 trees of the bundled voice and thousands of generated voice files (all header/tree/PDF shapes of the quantifier) compared bit-for-bit with an independent reader and, for generated files, with the written spec. Sampling, not proof: question semantics are only exercised on the corpus-derived label domain.",
         "Trusts the harness's own reader/glob matcher (cross-validated against the written VoiceSpec) and jlabel's Display as 'the label text'.", "4/C04"),
 "C05": ("exploration", "differential PBT: banded LDL solution vs dense Gaussian-elimination solve of the normal equations built from the definition",
         "Generated streams over the whole quantifier (states, durations, vector lengths, window sets incl. width 5, voicing patterns incl. islands and all-unvoiced) compared with an independent dense solve at relative 1e-9.",
         "Trusts the harness's construction of W and U^-1 from the property text; GV off; variances within [0.05,3].", "4/C05"),
 "C08": ("exploration", "PBT against the closed-form speed law + engine-level wiring check",
         "Tens of thousands of generated duration models x speeds checked against the exact law (round, floor, monotonicity), plus bundled-voice utterances through Engine at generated speeds.",
         "Half-way ties within 1e-9 accept either neighbour; the engine layer takes the duration Gaussians from the public Models API.", "4/C08"),
 "C09": ("exploration", "PBT against the alignment law (cumulative-frame oracle + reference duration fit), label-time conversion oracle, engine-level wiring",
         "Generated time annotations (known/unknown subsets, non-monotone, zero-length, exact .5 frames, up to minutes) on generated duration models, generated label text with times, and engines with rate/frame-period overrides.",
         "Distribution inside a group is compared with a reference of the HTS fitting rule only when no tie (margin 1e-9) makes it ambiguous.", "4/C09"),
 "C20": ("exploration", "model-based PBT (proptest): random setter histories vs reference model of the documented clamps",
         "Generated setter-call histories (thousands per run, arguments biased to bounds/subnormals/huge values) compared after every call with an explicit reference model; shows absence of clamp/round-trip errors on the explored histories, not for all f64.",
         "Trusts the doc comments of the setters as the specification of the ranges; finite arguments only.", "4/C20"),
}

ALL = ["C%02d" % i for i in range(1, 21)]
NOT_BUILT_REASON = "check not built yet in this revision of /verif (work in progress; planned, see DESIGN.md section 4)"

def main():
    hooks_commits = []
    try:
        out = subprocess.run(["git", "-C", "/repo", "log", "--format=%H %s"], capture_output=True, text=True).stdout
        for line in out.splitlines():
            h, s = line.split(" ", 1)
            if s.startswith("verif-hooks"):
                hooks_commits.append(h)
    except Exception:
        pass
    checks = []
    for pid in ALL:
        if pid not in CHECKS:
            continue
        cat, tech, text, note, ref = CHECKS[pid]
        checks.append({
            "property_id": pid,
            "quick_cmd": "./run.sh %s quick" % pid,
            "thorough_cmd": "./run.sh %s thorough" % pid,
            "evidence_file": "/verif/evidence/%s.json" % pid,
            "replay_cmd_template": "./run.sh %s replay {path}" % pid,
            "engine": "jbverif",
            "level_claimed": {"category": cat, "text": text, "design_ref": "DESIGN.md section " + ref},
            "level_note": note,
            "technique": tech,
        })
    manifest = {
        "version": 1,
        "setup_cmd": "./setup.sh",
        "hooks": {
            "guard": "verif-hooks",
            "enable": "cargo feature: the harness depends on jbonsai = { path = \"/repo\", features = [\"verif-hooks\"] }",
            "baseline_off_cmd": "cd /repo && cargo test --workspace --no-fail-fast --offline",
            "source_commits": hooks_commits,
            "add_only": True,
        },
        "engines": [
            {"name": "jbverif", "path": "/verif/harness", "serves_properties": sorted(CHECKS),
             "kind_free_text": "Rust crate: proptest TestRunner over choice tapes (custom delta-debugging shrinker), 16 shards, explicit oracles per property; replay files are JSON tapes"},
        ],
        "checks": checks,
        "not_applicable": [{"property_id": p, "reason": NOT_BUILT_REASON} for p in ALL if p not in CHECKS],
        "notes": "exit 0 held / 1 VIOLATION / 2 inconclusive (harness build failure, watchdog). VERIF_SEED selects the proptest seeds. Known findings: /verif/known_findings.json.",
    }
    with open(os.path.join(HERE, "MANIFEST.json"), "w") as f:
        json.dump(manifest, f, indent=1)
        f.write("\n")

if __name__ == "__main__":
    main()
