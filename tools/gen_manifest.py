#!/usr/bin/env python3
"""Regenerates /verif/MANIFEST.json from the table below (kept in one place so that the manifest,
the list of claimed properties and not_applicable stay consistent)."""
import json, os, subprocess

HERE = os.path.dirname(os.path.dirname(os.path.abspath(__file__)))

# id -> (level category, technique, level text, level note, design ref)
CHECKS = {
 "C01": ("exploration", "PBT over generated voices x labels x conditions with differential oracles (public-API frame count, harness-side rendering of hook trajectories, stable-range predicate)",
         "Thousands of generated (voice file, label sequence, condition, alignment) cases per run over the whole quantifier incl. 2/3-stream, MCP/LSP, 1..7 states, all window sets, bundled and perturbed voices, structurally random labels: totality, exact length, per-state floor, finiteness w.r.t. the stable-range predicate, and two wiring differentials. Sampling, not proof.",
         "Frame count oracle uses jbonsai's public DurationEstimator/Models (decided separately by C04/C08/C09); stable range evaluated on a 129-point grid.", "4/C01"),
 "C02": ("exploration", "model-based PBT of call histories (reference model: one-shot waveform + cursor) plus exhaustive enumeration of all histories up to a bounded length on 0..4-frame generators",
         "Random histories on engine-built generators (all voice kinds) and the complete set of histories over {Step(fp), Step(2fp+1), Step(3fp), Frames, Finish} up to length 4 (quick) / 6 (thorough) on 40 short generators; bitwise comparison with one-shot synthesis.",
         "Exhaustive only for the enumerated sub-space (reported per sub-check); long utterances are sampled.", "4/C02"),
 "C03": ("exploration", "PBT with real threads on one shared engine (barrier + generated stagger), sequential reference, setter-history metamorphic relation, compile-time Send/Sync probe",
         "Hundreds of cases x 2..16 concurrent jobs per run compared bitwise with a sequential reference; repeat / clone / interleaved live generator; getters unchanged; two setter histories ending in the same values; history independence against a fresh process; long utterances under both buffer placements of the harness-owned allocator (bit-identical trajectories and waveforms). Detects shared hidden state with high probability; cannot enumerate interleavings.",
         "The OS owns the schedule: a narrow race window can be missed and a failing schedule is not replayable (stated in DESIGN.md).", "4/C03"),
 "C04": ("exploration", "differential PBT: loaded voice vs independent .htsvoice reader + glob tree walk, generated voice files (round-trip through own writer)",
         "Thousands of generated labels against all 18 trees of the bundled voice and thousands of generated voice files (all header/tree/PDF shapes of the quantifier) compared bit-for-bit with an independent reader and, for generated files, with the written spec. Sampling, not proof: question semantics are only exercised on the corpus-derived label domain.",
         "Trusts the harness's own reader/glob matcher (cross-validated against the written VoiceSpec) and jlabel's Display as 'the label text'.", "4/C04"),
 "C05": ("exploration", "differential PBT: banded LDL solution vs dense Gaussian-elimination solve of the normal equations built from the definition",
         "Generated streams over the whole quantifier (states, durations, vector lengths, window sets incl. width 5, voicing patterns incl. islands and all-unvoiced) compared with an independent dense solve at relative 1e-9.",
         "Trusts the harness's construction of W and U^-1 from the property text; GV off; variances within [0.05,3].", "4/C05"),
 "C06": ("exploration", "PBT with a physical oracle: DFT of the pulse response measured through the public Vocoder vs the closed-form model spectrum",
         "Generated cepstra (orders 2..40, alpha, 6 sampling rates, shapes up to 2 nepers) checked on 65/257 frequencies against sum c_m cos(m w~) at the property's own 0.01-neper bound (measured worst 3e-4).",
         "Cases whose reference response does not decay inside the measured window are rejected (counted).", "4/C06"),
 "C07": ("exploration", "PBT with closed-form pulse-train law, statistical noise test and an exact metamorphic relation for mixed excitation",
         "Generated F0 tracks (constant, steps, glides, V/UV switches, values outside the limits) through the public Vocoder with an identity filter: pulse heights, gaps, restart behaviour, mean power; 48k-sample noise statistics; A = C + h*(B-C) to 1e-12 for random low-pass filters of every odd order up to 31.",
         "Gap bounds are only asserted while all glides since the last restart are slower than 0.5 samples/sample (the property does not define the burst after a fast glide).", "4/C07"),
 "C08": ("exploration", "PBT against the closed-form speed law + engine-level wiring check",
         "Tens of thousands of generated duration models x speeds checked against the exact law (round, floor, monotonicity), plus bundled-voice utterances through Engine at generated speeds.",
         "Half-way ties within 1e-9 accept either neighbour; the engine layer takes the duration Gaussians from the public Models API.", "4/C08"),
 "C09": ("exploration", "PBT against the alignment law (cumulative-frame oracle + reference duration fit), label-time conversion oracle, engine-level wiring",
         "Generated time annotations (known/unknown subsets, non-monotone, zero-length, exact .5 frames, up to minutes) on generated duration models, generated label text with times, and engines with rate/frame-period overrides.",
         "Distribution inside a group is compared with a reference of the HTS fitting rule only when no tie (margin 1e-9) makes it ambiguous.", "4/C09"),
 "C10": ("exploration", "PBT against the weighted-sum oracle built from per-voice public lookups; metamorphic vertex/identical-voice relations",
         "1..4 compatible voices (bundled + perturbed copies, generated + same-metadata variants), independent dyadic weight vectors incl. negative/over-unity for duration, every stream and every GV; every Gaussian compared at 1e-12.",
         "Per-voice tree selection is trusted here (decided by C04).", "4/C10"),
 "C11": ("exploration", "PBT on hook trajectories against the per-state voicing rule (public Models API) with monotonicity and independence metamorphic relations",
         "Generated engines/utterances/conditions incl. thresholds exactly equal to a state's voicing weight; per-frame voiced <=> weight > threshold, monotone in the threshold, other streams bitwise untouched.",
         "Uses the verif-hooks accessor; frame->state mapping from the public duration estimator.", "4/C11"),
 "C12": ("exploration", "PBT with a statistical oracle (variance ratio over GV-eligible frames) and exact differential for the no-eligible-frame case",
         "Hundreds of 10..60-label utterances x 3 GV weights on the bundled voice and perturbed copies: per-coefficient variance within 20 % of weight x GV mean (measured 6 %), monotone in the weight; silence-only utterances equal the plain ML solution bitwise; non-GV stream untouched; voice sets with different GV statistics; copies whose header clears USE_GV while keeping the GV data must behave as streams without GV.",
         "Eligibility computed with the harness's own glob matcher on the label text.", "4/C12"),
 "C13": ("exploration", "PBT with a physical oracle: measured pulse response vs minimum-phase impulse response of K/A(z~)^s computed independently (polynomial LSP->LPC, homomorphic IR)",
         "Generated LSP sets (orders 2..24 even/odd, stages 1..4, alpha, linear/log gain, minimal spacing) compared in the time domain (1e-6 of the peak) and in log-magnitude (0.001 neper within 100 dB of the peak); the same after generated frame histories (frame period 1, and long frames on one vocoder); generated LSP voice FILES: engine output == Vocoder built from the stage / gain convention / alpha written into the file.",
         "Truncation of the finite measurement window is cancelled by truncating the reference identically.", "4/C13"),
 "C14": ("exploration", "PBT, metamorphic: pulse responses with and without the postfilter vs the closed-form (1+beta) law and energy equality",
         "Generated cepstra x beta: spectral relation constant within 0.005 neper, energy within 1 %, bitwise no-op for beta = 0 and length 2; the same after generated frame histories; the first pulse after unvoiced frames (isolated by differencing a 20-Hz and a 40-Hz rendering) equals the stationary response; engine level: a beta set through the condition (log-uniform from 1e-4) reaches the vocoder unchanged.",
         "Measured in frame 2 (stationary coefficients); cases outside the Pade-accurate range are rejected (counted).", "4/C14"),
 "C15": ("exploration", "PBT, metamorphic relation against h = 0 on hook trajectories + direct check of the public clamp",
         "Generated engines/utterances/conditions x h in [-24,24]: durations, voicing, spectrum and low-pass trajectories bitwise invariant; voiced log-F0 shifted by h ln2/12 within 1e-8 unless a voiced state reaches the clamp.",
         "Uses the verif-hooks accessor.", "4/C15"),
 "C16": ("exploration", "PBT, metamorphic relation against 0 dB",
         "Generated engines (MLSA and LSP) x v in [-60,60]: sample-wise gain 10^(v/20) at 1e-12, trajectories untouched, getter round-trip 1e-9.",
         "Non-finite samples (runaway filters) must be non-finite in both runs.", "4/C16"),
 "C17": ("exploration", "PBT: all input forms compared bitwise; grammar-aware corruption of label text with an Ok/LabelError-only oracle",
         "Every ToLabels form incl. const-size arrays of 6 sizes, blank lines and time stamps; thousands of corrupted lines per run (13 operators) must yield Ok or a label error, never a panic, with the verdict an independent line grammar gives; kept time stamps equal the written decimal value in 100 ns units.",
         "With alignment on only finite times below 10 minutes are in the domain.", "4/C17"),
 "C18": ("fault_enumeration", "deterministic single-fault grid + generated single/double/triple faults on valid voice files, process-isolated, with counting allocator and hang monitor",
         "Complete grid (every header number x 15 replacements incl. non-ASCII digits, every header line deleted/duplicated, every boundary truncation, every single-character substitution - 17 structural characters and the 8 one-bit errors - at every position of the header / tree / window text of generated voices and of the bundled header) on the bundled voice and 20 generated voices, plus thousands of generated multi-faults incl. tree/question edits and byte flips; oracle: Ok or Err, no panic, bounded heap, termination. An abort or hang of the loader is attributed by re-running the in-flight case in a fresh process.",
         "Built with overflow checks (arithmetic overflow counts as a panic). One known finding lives in the dependency jlabel-question (listed in known_findings.json).", "4/C18"),
 "C19": ("exploration", "PBT: one-field metadata variants of generated voice files; model-based histories of weight updates (reference model = last accepted vector per slot)",
         "Every metadata field of the statement varied in isolation on complete loadable voice files at every position of 2..3 voices; histories of valid/invalid updates (wrong length, sum off, NaN, inf) with getter and waveform comparison against a fresh engine.",
         "Sums off by less than 1e-6 are not generated (left open by the property).", "4/C19"),
 "C20": ("exploration", "model-based PBT (proptest): random setter histories vs reference model of the documented clamps",
         "Generated setter-call histories (thousands per run, arguments biased to bounds/subnormals/huge values) compared after every call with an explicit reference model; shows absence of clamp/round-trip errors on the explored histories, not for all f64.",
         "Trusts the doc comments of the setters as the specification of the ranges; finite arguments only.", "4/C20"),
}

ALL = ["C%02d" % i for i in range(1, 21)]
NOT_BUILT_REASON = "check not built yet in this revision of /verif (work in progress; planned, see DESIGN.md section 4)"

def main():
    hooks_commits = []
    try:
        out = subprocess.run(["git", "-C", "/repo", "log", "--format=%H %s"], capture_output=True, text=True).stdout
        for line in out.splitlines():
            h, s = line.split(" ", 1)
            if s.startswith("verif-hooks"):
                hooks_commits.append(h)
    except Exception:
        pass
    checks = []
    for pid in ALL:
        if pid not in CHECKS:
            continue
        cat, tech, text, note, ref = CHECKS[pid]
        checks.append({
            "property_id": pid,
            "quick_cmd": "./run.sh %s quick" % pid,
            "thorough_cmd": "./run.sh %s thorough" % pid,
            "evidence_file": "/verif/evidence/%s.json" % pid,
            "replay_cmd_template": "./run.sh %s replay {path}" % pid,
            "engine": "jbverif",
            "level_claimed": {"category": cat, "text": text, "design_ref": "DESIGN.md section " + ref},
            "level_note": note,
            "technique": tech,
        })
    manifest = {
        "version": 1,
        "setup_cmd": "./setup.sh",
        "hooks": {
            "guard": "verif-hooks",
            "enable": "cargo feature: the harness depends on jbonsai = { path = \"/repo\", features = [\"verif-hooks\"] }",
            "baseline_off_cmd": "cd /repo && cargo test --workspace --no-fail-fast --offline",
            "source_commits": hooks_commits,
            "add_only": True,
        },
        "engines": [
            {"name": "jbverif", "path": "/verif/harness", "serves_properties": sorted(CHECKS),
             "kind_free_text": "Rust crate: proptest TestRunner over choice tapes (custom delta-debugging shrinker), 16 shards, explicit oracles per property; replay files are JSON tapes"},
        ],
        "checks": checks,
        "not_applicable": [{"property_id": p, "reason": NOT_BUILT_REASON} for p in ALL if p not in CHECKS],
        "notes": "exit 0 held / 1 VIOLATION / 2 inconclusive (harness build failure, watchdog). VERIF_SEED selects the proptest seeds. Known findings: /verif/known_findings.json.",
    }
    with open(os.path.join(HERE, "MANIFEST.json"), "w") as f:
        json.dump(manifest, f, indent=1)
        f.write("\n")

if __name__ == "__main__":
    main()
