#!/bin/bash
# Build the verification harness offline from files on disk only.
set -e
cd "$(dirname "$0")"
./run.sh build
