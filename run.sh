#!/bin/bash
# usage: ./run.sh <ID> quick|thorough            run the check of one property
#        ./run.sh <ID> replay <file>             re-run one saved case
#        ./run.sh build                          build the harness only
# Rebuilds the harness against /repo's current working tree (path dependency) on every call.
# exit 0 = property held on everything explored, 1 = VIOLATION line printed, 2 = inconclusive.
set -u
HERE="$(cd "$(dirname "$0")" && pwd)"
export CARGO_NET_OFFLINE=true
export VERIF_DIR="${VERIF_DIR:-$HERE}"
cd "$HERE/harness" || exit 2

# VERIF_REPO (default /repo): the source tree under test. A value other than /repo is only used by
# background runs that must not see edits made to /repo meanwhile (vp run --with-repo).
REPO="${VERIF_REPO:-/repo}"
OVERRIDE=()
if [ "$REPO" != "/repo" ]; then OVERRIDE=(--config "paths=[\"$REPO\"]"); export VERIF_REPO="$REPO"; fi

build() {
    local log="$HERE/target/build.log"
    mkdir -p "$HERE/target"
    if ! cargo build --release --offline --bin check --target-dir "$HERE/target" "${OVERRIDE[@]}" >"$log" 2>&1; then
        # a stale lock file is the only recoverable cause: retry once from the repository's lock
        cp "$REPO/Cargo.lock" Cargo.lock 2>/dev/null
        if ! cargo build --release --offline --bin check --target-dir "$HERE/target" "${OVERRIDE[@]}" >"$log" 2>&1; then
            echo "INCONCLUSIVE: harness does not build against the current tree (see $log)"
            tail -n 30 "$log"
            return 2
        fi
    fi
    return 0
}

if [ "${1:-}" = "build" ]; then
    build; exit $?
fi
ID="${1:?property id}"; MODE="${2:-quick}"
# a replay file may be given relative to the caller's directory or to this directory
REPLAY="${3:-}"
if [ -n "$REPLAY" ] && [ "${REPLAY#/}" = "$REPLAY" ]; then
    if [ -e "$PWD/$REPLAY" ]; then REPLAY="$PWD/$REPLAY"; elif [ -e "$HERE/$REPLAY" ]; then REPLAY="$HERE/$REPLAY"; fi
fi
build || exit 2
BIN="$HERE/target/release/check"
case "$MODE" in
    quick|thorough)
        # jbonsai writes diagnostics (eprintln!) to stderr; keep them out of the report
        "$BIN" "$ID" --tier "$MODE" 2>"$HERE/target/$ID.stderr"; rc=$?
        grep -E "^(INCONCLUSIVE|warning: cannot|cannot )" "$HERE/target/$ID.stderr" | head -n 20 ;;
    replay)
        "$BIN" "$ID" --replay "${REPLAY:?replay file}"; rc=$? ;;
    *) echo "unknown mode $MODE"; exit 2 ;;
esac
# thorough tier: bounded coverage-guided campaigns with the same oracle inside the target
if [ "$MODE" = "thorough" ] && [ $rc -eq 0 ] && [ "${VERIF_NO_FUZZ:-0}" != "1" ]; then
    S="${VERIF_SEED:-0}"
    case "$ID" in
        C01) FZ="synth_structured synthesis ${VERIF_FUZZ_RUNS:-100000}" ;;
        C02) FZ="gen_history random-history ${VERIF_FUZZ_RUNS:-100000}" ;;
        C17) FZ="label_text - ${VERIF_FUZZ_RUNS:-3000000}" ;;
        C18) FZ="load_voice - ${VERIF_FUZZ_RUNS:-1500000}" ;;
        *) FZ="" ;;
    esac
    if [ -n "$FZ" ]; then
        set -- $FZ
        out="$("$HERE/tools/fuzz_campaign.sh" "$ID" "$1" "$2" "$3" "$S" 16 2>&1)"; frc=$?
        echo "$out" | grep -a -E "^(FUZZ |VIOLATION|INCONCLUSIVE|  )"
        line="$(echo "$out" | grep -a "^FUZZ-JSON " | sed 's/^FUZZ-JSON //')"
        if [ -n "$line" ]; then
            python3 - "$VERIF_DIR/evidence/$ID.json" "$line" <<'PY'
import json, sys
path, extra = sys.argv[1], json.loads(sys.argv[2])
e = json.load(open(path))
e["coverage"]["libfuzzer_campaign"] = extra
e["coverage"]["evaluations"] += extra["executions"]
e["coverage"]["rule"] += " || [libfuzzer:%s] coverage-guided byte inputs (seed corpus from `check gen-corpus`, -len_control=0) decoded by the same decoder and judged by the same oracle; executions are counted in evaluations, not in distinct_nontrivial" % extra["target"]
if extra["crashes"]:
    e["violations"] = e.get("violations", 0) + 1
json.dump(e, open(path, "w"), indent=2)
PY
        fi
        case $frc in 0) ;; 1) rc=1 ;; *) rc=2 ;; esac
    fi
fi
case $rc in
    0|1) exit $rc ;;
    *) echo "INCONCLUSIVE: check exited with status $rc"; exit 2 ;;
esac
