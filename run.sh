#!/bin/bash
# usage: ./run.sh <ID> quick|thorough            run the check of one property
#        ./run.sh <ID> replay <file>             re-run one saved case
#        ./run.sh build                          build the harness only
# Rebuilds the harness against /repo's current working tree (path dependency) on every call.
# exit 0 = property held on everything explored, 1 = VIOLATION line printed, 2 = inconclusive.
set -u
HERE="$(cd "$(dirname "$0")" && pwd)"
export CARGO_NET_OFFLINE=true
export VERIF_DIR="${VERIF_DIR:-$HERE}"
cd "$HERE/harness" || exit 2

build() {
    local log="$HERE/target/build.log"
    mkdir -p "$HERE/target"
    if ! cargo build --release --offline --bin check --target-dir "$HERE/target" >"$log" 2>&1; then
        # a stale lock file is the only recoverable cause: retry once from the repository's lock
        cp /repo/Cargo.lock Cargo.lock 2>/dev/null
        if ! cargo build --release --offline --bin check --target-dir "$HERE/target" >"$log" 2>&1; then
            echo "INCONCLUSIVE: harness does not build against the current tree (see $log)"
            tail -n 30 "$log"
            return 2
        fi
    fi
    return 0
}

if [ "${1:-}" = "build" ]; then
    build; exit $?
fi
ID="${1:?property id}"; MODE="${2:-quick}"
build || exit 2
BIN="$HERE/target/release/check"
case "$MODE" in
    quick|thorough)
        # jbonsai writes diagnostics (eprintln!) to stderr; keep them out of the report
        "$BIN" "$ID" --tier "$MODE" 2>"$HERE/target/$ID.stderr"; rc=$?
        grep -E "^(INCONCLUSIVE|warning: cannot|cannot )" "$HERE/target/$ID.stderr" | head -n 20 ;;
    replay)
        "$BIN" "$ID" --replay "${3:?replay file}"; rc=$? ;;
    *) echo "unknown mode $MODE"; exit 2 ;;
esac
case $rc in
    0|1) exit $rc ;;
    *) echo "INCONCLUSIVE: check exited with status $rc"; exit 2 ;;
esac
