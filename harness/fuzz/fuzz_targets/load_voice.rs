#![no_main]
//! C18 under coverage guidance: any byte sequence loaded as a voice returns Ok or Err.
use libfuzzer_sys::fuzz_target;

fuzz_target!(|data: &[u8]| {
    jbverif::fuzz_support::load_voice(data);
});
