#![no_main]
//! C18 under coverage guidance: any byte sequence loaded as a voice returns Ok or Err.
//! Structure-aware custom mutator: half of the mutations are the harness's own fault operators
//! (header numbers, ranges, lines, tree/question tokens, truncations ...) applied to the current
//! input, the other half libFuzzer's byte-level mutations.
use libfuzzer_sys::{fuzz_mutator, fuzz_target, fuzzer_mutate};

fuzz_target!(|data: &[u8]| {
    jbverif::fuzz_support::load_voice(data);
});

fuzz_mutator!(|data: &mut [u8], size: usize, max_size: usize, seed: u32| {
    if seed % 2 == 0 {
        return fuzzer_mutate(data, size, max_size);
    }
    // choice tape for the fault operator, derived from libFuzzer's seed
    let mut x = (seed as u64).wrapping_mul(0x9E37_79B9_7F4A_7C15) | 1;
    let words: Vec<u32> = (0..64)
        .map(|_| {
            x ^= x << 13;
            x ^= x >> 7;
            x ^= x << 17;
            (x >> 16) as u32
        })
        .collect();
    let mut t = jbverif::tape::Tape::new(&words);
    let (out, _) = jbverif::faults::apply_fault(&mut t, &data[..size]);
    let n = out.len().min(max_size).min(data.len());
    data[..n].copy_from_slice(&out[..n]);
    n
});
