#![no_main]
//! C01 under coverage guidance: bytes -> choice tape -> the same case type and oracle as the proptest check.
use libfuzzer_sys::fuzz_target;

fuzz_target!(|data: &[u8]| {
    jbverif::fuzz_support::tape_prop("C01", "synthesis", data);
});
