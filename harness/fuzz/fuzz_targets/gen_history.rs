#![no_main]
//! C02 under coverage guidance: bytes -> choice tape -> generated engine + call history vs the reference model.
use libfuzzer_sys::fuzz_target;

fuzz_target!(|data: &[u8]| {
    jbverif::fuzz_support::tape_prop("C02", "random-history", data);
});
