#![no_main]
//! C17 under coverage guidance: label text is accepted or reported as a label error.
use libfuzzer_sys::fuzz_target;

fuzz_target!(|data: &[u8]| {
    jbverif::fuzz_support::label_text(data);
});
