use jbonsai::model::voice::question::Question;
fn main() {
    let label: jlabel::Label = "r^i-k+o=k/A:-1+1+4/B:11-xx_xx/C:02_xx+xx/D:13+xx_xx/E:6_6!0_xx-1/F:4_2#0_xx@5_5|17_19/G:5_5%0_xx_1/H:9_36/I:9-35@19+19&49-49|199+199/J:4_15/K:19+49-199".parse().unwrap();
    for pats in [vec!["*-k+*/A:-?+*", "*-s+*/A:0+*"], vec!["*-k+*/A:-?+*"], vec!["*^a-*+o=*"], vec!["*^i-*+o=*"], vec!["*-o+*/F:?_1#*","*-a+*/F:?_2#*"], vec!["*^sil-*","*=sil/A:*"], vec!["*-1/H:*"]] {
        let q = Question::parse(&pats).unwrap();
        let kind = match &q { Question::AllQustion(a) => format!("{:?}", a), Question::Regex(_) => "REGEX".to_string() }; println!("{:?} -> {} test={}", pats, kind, q.test(&label));
    }
}
