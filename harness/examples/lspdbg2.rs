use jbonsai::vocoder::Vocoder;
fn main() {
    let lsp = vec![0.3, 1.0, 2.0];
    let rate = 16000usize; let p = 800.0f64; let fperiod = 798usize;
    let mut v = Vocoder::new(3, 0, 1, false, rate, 0.0, 0.0, 1.0, fperiod);
    let mut f1 = vec![0.0; fperiod]; let mut f2 = vec![0.0; fperiod];
    v.synthesize(20f64.ln(), &lsp, &[], &mut f1);
    v.synthesize(20f64.ln(), &lsp, &[], &mut f2);
    println!("f1 {:?}", &f1[..5].iter().map(|x| x/p.sqrt()).collect::<Vec<_>>());
    println!("f2 {:?}", &f2[..5].iter().map(|x| x/p.sqrt()).collect::<Vec<_>>());
    println!("ln20 {} exp {}", 20f64.ln(), (16000.0/20f64.ln().exp()));
}
