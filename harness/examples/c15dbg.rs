use jbverif::props::c15::*;
use jbverif::runner::Prop;
use jbverif::tape::Tape;
use jbverif::engine_case::*;
use jbverif::engine_util::trajectories;
fn main() {
    let r: serde_json::Value = serde_json::from_str(&std::fs::read_to_string(std::env::args().nth(1).unwrap()).unwrap()).unwrap();
    let tape: Vec<u32> = r["tape"].as_array().unwrap().iter().map(|x| x.as_u64().unwrap() as u32).collect();
    let mut t = Tape::new(&tape);
    let c = HalfToneShift.decode(&mut t, jbverif::runner::Tier::Quick);
    let (mut e, _) = build_engine(&c.base.voice).map_err(|f| f.message).unwrap();
    c.base.cond.apply(&mut e);
    let g = e.generator(c.base.labels.as_slice()).unwrap();
    let t0 = trajectories(&g);
    let mut e2 = e.clone(); e2.condition.set_additional_half_tone(c.half_tone);
    let t1 = trajectories(&e2.generator(c.base.labels.as_slice()).unwrap());
    for (i,(a,b)) in t0.lf0.iter().zip(&t1.lf0).enumerate() { println!("{} {} {} {}", i, a[0], b[0], b[0]-a[0]); }
    println!("gvw {} thr {}", e.condition.get_gv_weight(1), e.condition.get_msd_threshold(1));
}
