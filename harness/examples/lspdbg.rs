use jbverif::dsp::*;
use std::f64::consts::PI;
fn main() {
    let lsp = vec![0.3, 0.25035679571470126, 0.4917145721807825, 0.5389061518426478, 0.6361335475895928, 0.6836482394231312, 0.7308398190849965, 0.7780313987468618, 0.825222978408727, 1.0073201972515529, 1.325545217965693, 1.513823954944279, 1.5747739893367898, 1.7307485999747303, 1.7779401796365957, 1.825131759298461, 2.0553379494681896, 2.102529529130055, 2.3852493380663686, 2.458306600516618, 2.6069780065423322, 2.6541695862041976, 2.7711951825957115, 3.0944010739279277];
    let (rate, stage, alpha) = (44100usize, 3usize, 0.55);
    let a = lsp_to_lpc(&lsp[1..]);
    let model = |w: f64| lsp_logmag(lsp[0], &a, stage, alpha, w);
    let m = measure_pulse(&lsp, stage, false, rate, alpha, 0.0, 1.0);
    println!("window {} f1 {} f2 {}", m.window, m.frame1.len(), m.frame2.len());
    for n in [8192usize, 16384, 65536, 262144] {
        let ir = minphase_ir(&model, n);
        println!("n={} tail@2200 {:e} tail@1000 {:e} ir[0..4]={:?}", n, tail_energy_fraction(&ir, 2200), tail_energy_fraction(&ir, 1000), &ir[..4]);
    }
    println!("measured f1[0..4]={:?}", &m.frame1[..4]);
    let e: f64 = m.frame1.iter().map(|x| x*x).sum();
    for k in [500usize, 1000, 1500, 2000, 2200] { let t: f64 = m.frame1[k..].iter().map(|x| x*x).sum(); println!("measured tail@{} {:e}", k, t/e); }
    let ir = minphase_ir(&model, 65536);
    let mut maxd = 0.0f64; for i in 0..2000 { maxd = maxd.max((ir[i]-m.frame1[i]).abs()); }
    println!("max |ref-measured| over 2000 samples {:e}", maxd);
    let mut arg=0; let mut md=0.0f64; for i in 0..2000 { let d=(ir[i]-m.frame1[i]).abs(); if d>md {md=d; arg=i;} }
    println!("argmax {} ref {:e} meas {:e}", arg, ir[arg], m.frame1[arg]);
    for i in [0usize,1,2,5,10,50,100,200,500,1000] { println!("i={} ref {:e} meas {:e} diff {:e}", i, ir[i], m.frame1[i], ir[i]-m.frame1[i]); }
    for i in 0..9 { let w = PI*i as f64/8.0; println!("w={:.3} model {:.4} f1 {:.4} f2 {:.4}", w, model(w), dft_logmag(&m.frame1, w), dft_logmag(&m.frame2, w)); }
    let w=0.785; println!("w={:.3} model {:.4} f1 {:.4} ref-ir {:.4}", w, model(w), dft_logmag(&m.frame1, w), dft_logmag(&ir[..30000], w));
}
