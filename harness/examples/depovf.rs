use jbverif::voice::*;
use jbverif::tape::Tape;
fn main() {
    let words: Vec<u32> = vec![0; 100];
    let mut t = Tape::new(&words);
    let mut v = gen_voice(&mut t, GenOpts::default());
    for pat in ["*-25?", "*/A:-13?+*", "*/F:26?_*", "*/A:25?+*", "*-26?", "*_30?/K:*"] {
        v.duration.questions[0].1 = vec![pat.to_string()];
        let bytes = v.to_bytes();
        let r = jbverif::props::c18::check_load(&bytes);
        println!("{} -> {:?}", pat, r.map(|o| o.loaded).map_err(|f| f.signature));
        if pat == "*-25?" { std::fs::create_dir_all("/verif/replays/known").unwrap(); std::fs::write("/verif/replays/known/C18-dep-jlabel-question-u8-range.htsvoice", &bytes).unwrap(); }
    }
}
