use jbverif::dsp::*;
fn main() {
    let lsp = vec![1.0, 0.46469618805433016, 1.032585415643296, 1.3866275153797878, 1.4636441535569367, 1.5406607917340855, 1.6176774299112344, 1.6946940680883833, 1.7717107062655322, 1.848727344442681, 1.92574398261983, 2.0027606207969786, 2.0797772589741275, 2.1567938971512763, 2.233810535328425, 2.310827173505574, 2.387843811682723, 2.464860449859872, 2.5418770880370207, 2.6188937262141696, 2.6959103643913185, 2.7729270025684674, 2.8499436407456162];
    let a = lsp_to_lpc(&lsp[1..]);
    let m = measure_pulse(&lsp, 1, false, 16000, 0.0, 0.0, 1.0);
    let n = 65536;
    let ir = minphase_ir(|w| lsp_logmag(1.0, &a, 1, 0.0, w), n);
    // direct recursion
    let len = m.frame1.len();
    let mut y = vec![0.0f64; len];
    for i in 0..len {
        let mut acc = if i == 0 { 1.0 } else { 0.0 };
        for k in 1..a.len() { if i >= k { acc -= a[k] * y[i - k]; } }
        y[i] = acc / a[0];
    }
    let peak = y.iter().fold(0.0f64, |p, x| p.max(x.abs()));
    let d_voc_direct = m.frame1.iter().zip(&y).fold(0.0f64, |p, (a, b)| p.max((a - b).abs()));
    let d_ref_direct = ir[..len].iter().zip(&y).fold(0.0f64, |p, (a, b)| p.max((a - b).abs()));
    println!("a0 {} len {} peak {:e} |vocoder-direct| {:e} |homomorphic-direct| {:e} tail {:e}", a[0], len, peak, d_voc_direct, d_ref_direct, tail_energy_fraction(&ir, n / 2));
    let (mut wi, mut wd) = (0, 0.0);
    for i in 0..len { let d = (m.frame1[i] - y[i]).abs(); if d > wd { wd = d; wi = i; } }
    println!("worst at {} : vocoder {:e} direct {:e}", wi, m.frame1[wi], y[wi]);
    for i in [0usize, 1, 2, 3, 5, 10, 20, 50, 100, 200, 400] { println!("{} {:e} {:e} {:e}", i, m.frame1[i], y[i], m.frame1[i] - y[i]); }
    for k in 0..9 { let w = std::f64::consts::PI * k as f64 / 8.0; println!("w {:.3} voc {:.6} direct {:.6} model {:.6}", w, dft_logmag(&m.frame1, w), dft_logmag(&y, w), lsp_logmag(1.0, &a, 1, 0.0, w)); }
    let direct = |l: &[f64]| -> Vec<f64> { let a = lsp_to_lpc(&l[1..]); let mut y = vec![0.0f64; len]; for i in 0..len { let mut acc = if i == 0 { 1.0 } else { 0.0 }; for k in 1..a.len() { if i >= k { acc -= a[k] * y[i - k]; } } y[i] = acc / a[0]; } y };
    let mut total = 0.0;
    for j in 1..lsp.len() { let mut l2 = lsp.clone(); l2[j] += 1e-7; let y2 = direct(&l2); let d = y2.iter().zip(&y).fold(0.0f64, |p, (a, b)| p.max((a - b).abs())); total += d; }
    println!("sum of sensitivities for 1e-7 rad: {:e} -> error {:e} corresponds to {:e} rad", total, wd, wd / total * 1e-7);
    println!("last samples direct {:e} vocoder {:e}", y[len - 1], m.frame1[len - 1]);
}
