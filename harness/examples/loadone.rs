fn main() {
    let p = std::env::args().nth(1).unwrap();
    let r = jbonsai::model::load_htsvoice_file(&p);
    println!("{:?}", r.map(|_| "ok"));
}
