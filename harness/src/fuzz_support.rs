//! Entry points shared by the libFuzzer targets in /verif/fuzz. Every target carries the same
//! oracle as the proptest check of its property; a failure that is not a listed known finding
//! panics (libFuzzer then saves the input).

use std::sync::OnceLock;

use crate::props;
use crate::runner::{DynProp, KnownFindings, Tier};
use crate::tape::bytes_to_tape;
use crate::util::catch;

fn known() -> &'static KnownFindings {
    static K: OnceLock<KnownFindings> = OnceLock::new();
    K.get_or_init(KnownFindings::load)
}

fn report(property: &str, signature: &str, message: &str) {
    if known().lookup(property, signature).is_some() {
        return; // tolerated inside the target so that the campaign continues
    }
    eprintln!("FUZZ-VIOLATION property={} signature={} :: {}", property, signature, message);
    std::process::abort();
}

pub fn load_voice(data: &[u8]) {
    crate::util::install_panic_hook();
    if let Err(f) = props::c18::check_load(data) {
        report("C18", &f.signature, &f.message);
    }
}

pub fn label_text(data: &[u8]) {
    crate::util::install_panic_hook();
    if let Err(f) = label_text_check(data) {
        report("C17", &f.signature, &f.message);
    }
}

/// Oracle of the label_text target (also used to replay its artifacts).
pub fn label_text_check(data: &[u8]) -> Result<(), crate::runner::Failure> {
    use crate::runner::Failure;
    let Ok(text) = std::str::from_utf8(data) else { return Ok(()) };
    let lines: Vec<String> = text.split('\n').map(|s| s.to_string()).collect();
    if lines.len() > 12 {
        return Ok(());
    }
    // alignment flag from the first byte's parity keeps both paths reachable
    let alignment = data.first().map(|b| b % 2 == 1).unwrap_or(false);
    static ENGINE: OnceLock<jbonsai::Engine> = OnceLock::new();
    let engine = ENGINE.get_or_init(|| {
        let words = vec![0u32; 64];
        let mut t = crate::tape::Tape::new(&words);
        let spec = crate::voice::gen_voice(&mut t, crate::voice::GenOpts { max_states: 2, max_depth: 1, ..Default::default() });
        let tmp = crate::voice::TempVoice(crate::voice::write_temp(&spec.to_bytes(), "fuzz-label"));
        jbonsai::Engine::load(&[&tmp.0]).expect("fixture voice loads")
    });
    let mut e = engine.clone();
    e.condition.set_phoneme_alignment_flag(alignment);
    let c = &e.condition;
    let direct = catch(|| jbonsai::label::Labels::load_from_strings(c.get_sampling_frequency(), c.get_fperiod(), lines.as_slice()));
    match direct {
        Err(p) => Err(Failure::new(p.signature(), format!("Labels::load_from_strings panicked: {}", p.msg))),
        Ok(Ok(l)) => {
            if alignment && l.times().iter().any(|t| !t.0.is_finite() || !t.1.is_finite() || t.1 > 2000.0) {
                return Ok(()); // outside the domain (non-finite / very long times with alignment on)
            }
            if l.labels().len() > 6 {
                return Ok(());
            }
            match catch(|| e.generator(lines.as_slice()).map(|_| ())) {
                Err(p) => Err(Failure::new(p.signature(), format!("generator panicked on accepted text: {}", p.msg))),
                Ok(Err(err)) => Err(Failure::new("inconsistent-result", format!("accepted by Labels but rejected by the engine: {}", err))),
                Ok(Ok(())) => Ok(()),
            }
        }
        Ok(Err(_)) => match catch(|| e.generator(lines.as_slice()).map(|_| ())) {
            Err(p) => Err(Failure::new(p.signature(), format!("generator panicked: {}", p.msg))),
            Ok(Err(jbonsai::EngineError::LabelError(_))) => Ok(()),
            Ok(Err(err)) => Err(Failure::new("wrong-error-kind", format!("{}", err))),
            Ok(Ok(())) => Err(Failure::new("inconsistent-result", "rejected by Labels but accepted by the engine")),
        },
    }
}

/// Decode the bytes as a choice tape and run the named sub-check of a property.
pub fn tape_prop(property: &str, sub: &str, data: &[u8]) {
    crate::util::install_panic_hook();
    static PROPS: OnceLock<std::sync::Mutex<std::collections::HashMap<String, &'static (dyn DynProp + 'static)>>> = OnceLock::new();
    let map = PROPS.get_or_init(Default::default);
    let key = format!("{}/{}", property, sub);
    let p: &'static dyn DynProp = {
        let mut g = map.lock().unwrap();
        if let Some(p) = g.get(&key) {
            *p
        } else {
            let def = props::find(property).expect("property");
            let list = (def.props)(Tier::Quick);
            let b = list.into_iter().find(|p| p.name() == sub).expect("sub-check");
            let leaked: &'static dyn DynProp = Box::leak(b);
            g.insert(key.clone(), leaked);
            leaked
        }
    };
    let tape = bytes_to_tape(data);
    let out = p.run_tape(&tape, Tier::Quick, false);
    if let Err(f) = out.result {
        report(property, &f.signature, &f.message);
    }
}

/// Deterministic seed corpus for the four targets.
pub fn write_seed_corpus(dir: &std::path::Path) {
    use crate::util::hash64;
    let mk = |name: &str| {
        let d = dir.join(name);
        let _ = std::fs::create_dir_all(&d);
        d
    };
    // load_voice: small generated voices, their faulted variants, and the bundled header
    let d = mk("load_voice");
    for i in 0..12u32 {
        let words: Vec<u32> = (0..6000u32).map(|j| (hash64(&(i, j, 0xF0u32)) >> 16) as u32).collect();
        let mut t = crate::tape::Tape::new(&words);
        let spec = crate::voice::gen_voice(&mut t, crate::voice::GenOpts { max_states: 2, max_depth: 2, ..Default::default() });
        let bytes = spec.to_bytes();
        let _ = std::fs::write(d.join(format!("voice{:02}.htsvoice", i)), &bytes);
        let (faulty, _) = crate::faults::apply_fault(&mut t, &bytes);
        let _ = std::fs::write(d.join(format!("voice{:02}-fault.htsvoice", i)), &faulty);
    }
    let b = crate::bundled::bundled_bytes();
    if let Some(p) = b.windows(8).position(|w| w == b"\n[DATA]\n") {
        let _ = std::fs::write(d.join("bundled-header-only.htsvoice"), &b[..p + 8]);
    }
    // label_text
    let d = mk("label_text");
    let c = crate::corpus::corpus();
    for i in 0..8usize {
        let l = &c.lines[i * 97 % c.lines.len()];
        let _ = std::fs::write(d.join(format!("plain{}", i)), l);
        let _ = std::fs::write(d.join(format!("timed{}", i)), format!("{} {} {}", i * 1000000, (i + 1) * 1000000, l));
        let _ = std::fs::write(d.join(format!("two{}", i)), format!("{}\n{}", l, c.lines[(i * 31 + 7) % c.lines.len()]));
    }
    // tape targets: random tapes of the size the proptest checks use
    for (name, words) in [("synth_structured", 12000usize), ("gen_history", 12000usize)] {
        let d = mk(name);
        for i in 0..16u32 {
            let n = if i < 4 { 64 } else { words };
            let bytes: Vec<u8> = (0..n as u32).flat_map(|j| ((hash64(&(name, i, j)) >> 16) as u32).to_le_bytes()).collect();
            let _ = std::fs::write(d.join(format!("tape{:02}", i)), bytes);
        }
    }
}
