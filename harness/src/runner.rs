//! Sharded proptest driver, evidence accumulation, replay files, known findings.

use std::cell::{Cell, RefCell};
use std::collections::{BTreeMap, HashSet};
use std::path::PathBuf;
use std::sync::atomic::{AtomicBool, Ordering};
use std::time::Instant;

use proptest::test_runner::{Config, RngSeed, TestCaseError, TestError, TestRunner};
use serde::Serialize;
use serde_json::{json, Value};

use crate::tape::Tape;
use crate::util::{catch, hash64, hash_json, verif_dir};

#[derive(Clone, Copy, PartialEq, Eq, Debug)]
pub enum Tier {
    Quick,
    Thorough,
}

impl Tier {
    pub fn name(self) -> &'static str {
        match self {
            Tier::Quick => "quick",
            Tier::Thorough => "thorough",
        }
    }
    pub fn pick<T>(self, q: T, t: T) -> T {
        match self {
            Tier::Quick => q,
            Tier::Thorough => t,
        }
    }
}

#[derive(Default, Debug, Clone)]
pub struct Report {
    pub nontrivial: bool,
    pub rejected: bool,
    pub classes: Vec<String>,
    /// named measurements; the evidence reports the maximum seen per name
    pub metrics: Vec<(String, f64)>,
}

impl Report {
    pub fn new() -> Self {
        Self::default()
    }
    pub fn class(&mut self, s: impl Into<String>) -> &mut Self {
        self.classes.push(s.into());
        self
    }
    pub fn metric(&mut self, name: &str, v: f64) -> &mut Self {
        self.metrics.push((name.to_string(), v));
        self
    }
    pub fn class_if(&mut self, cond: bool, s: &str) -> &mut Self {
        if cond {
            self.classes.push(s.to_string());
        }
        self
    }
    pub fn rejected(why: &str) -> Self {
        Self {
            nontrivial: false,
            rejected: true,
            classes: vec![format!("rejected:{}", why)],
            metrics: vec![],
        }
    }
}

#[derive(Debug, Clone)]
pub struct Failure {
    pub signature: String,
    pub message: String,
}

impl Failure {
    pub fn new(signature: impl Into<String>, message: impl Into<String>) -> Self {
        Self {
            signature: signature.into(),
            message: message.into(),
        }
    }
}

#[macro_export]
macro_rules! fail {
    ($sig:expr, $($arg:tt)*) => {
        return Err($crate::runner::Failure::new($sig, format!($($arg)*)))
    };
}

#[macro_export]
macro_rules! ensure {
    ($cond:expr, $sig:expr, $($arg:tt)*) => {
        if !($cond) {
            return Err($crate::runner::Failure::new($sig, format!($($arg)*)));
        }
    };
}

pub trait Prop: Sync {
    type Case: Serialize;
    /// Sub-check name, unique within the property.
    fn name(&self) -> String;
    /// How cases are generated and which are non-trivial.
    fn rule(&self) -> String;
    fn tape_len(&self, tier: Tier) -> usize;
    fn cases(&self, tier: Tier) -> u32;
    fn shards(&self) -> usize {
        16
    }
    fn decode(&self, t: &mut Tape, tier: Tier) -> Self::Case;
    fn check(&self, c: &Self::Case) -> Result<Report, Failure>;
}

pub struct TapeOutcome {
    pub case: Value,
    pub hash: u64,
    pub overrun: usize,
    pub result: Result<Report, Failure>,
}

pub trait DynProp: Sync {
    fn name(&self) -> String;
    fn rule(&self) -> String;
    fn tape_len(&self, tier: Tier) -> usize;
    fn cases(&self, tier: Tier) -> u32;
    fn shards(&self) -> usize;
    fn run_tape(&self, tape: &[u32], tier: Tier, want_case: bool) -> TapeOutcome;
}

impl<P: Prop> DynProp for P {
    fn name(&self) -> String {
        Prop::name(self)
    }
    fn rule(&self) -> String {
        Prop::rule(self)
    }
    fn tape_len(&self, tier: Tier) -> usize {
        Prop::tape_len(self, tier)
    }
    fn cases(&self, tier: Tier) -> u32 {
        Prop::cases(self, tier)
    }
    fn shards(&self) -> usize {
        Prop::shards(self)
    }
    fn run_tape(&self, tape: &[u32], tier: Tier, want_case: bool) -> TapeOutcome {
        let mut t = Tape::new(tape);
        let case = match catch(|| self.decode(&mut t, tier)) {
            Ok(c) => c,
            Err(p) => {
                // a bug of the harness's own generator: never report it as a property violation
                eprintln!("HARNESS BUG: generator panicked at {}:{}: {}", p.file, p.line, p.msg);
                std::process::exit(2);
            }
        };
        let overrun = t.overrun;
        let hash = hash_json(&case);
        let result = match catch(|| self.check(&case)) {
            Ok(r) => r,
            Err(p) => Err(Failure::new(
                p.signature(),
                format!("panic at {}:{}: {}", p.file, p.line, p.msg),
            )),
        };
        let case = if want_case || result.is_err() {
            serde_json::to_value(&case).unwrap_or(Value::Null)
        } else {
            Value::Null
        };
        TapeOutcome {
            case,
            hash,
            overrun,
            result,
        }
    }
}

#[derive(Debug, Clone, serde::Deserialize, Serialize)]
pub struct KnownEntry {
    pub property: String,
    pub status: String,
    pub signature: String,
    #[serde(default)]
    pub commit: Option<String>,
    pub what: String,
    #[serde(default)]
    pub replay: Option<String>,
}

#[derive(Debug, Clone, Default, serde::Deserialize)]
pub struct KnownFindings {
    pub findings: Vec<KnownEntry>,
}

impl KnownFindings {
    pub fn load() -> Self {
        let p = verif_dir().join("known_findings.json");
        match std::fs::read_to_string(&p) {
            Ok(s) => serde_json::from_str(&s).unwrap_or_else(|e| {
                eprintln!("warning: cannot parse {}: {}", p.display(), e);
                Self::default()
            }),
            Err(_) => Self::default(),
        }
    }
    /// A failure is suppressed only by a `known` entry of the same property whose signature
    /// matches exactly.
    pub fn lookup(&self, property: &str, signature: &str) -> Option<&KnownEntry> {
        self.findings
            .iter()
            .find(|e| e.status == "known" && e.property == property && e.signature == signature)
    }
}

#[derive(Default)]
struct SubStats {
    evaluations: u64,
    rejected: u64,
    overrun_cases: u64,
    distinct_nontrivial: HashSet<u64>,
    classes: BTreeMap<String, u64>,
    metrics_max: BTreeMap<String, f64>,
    samples: Vec<Value>,
    first_trivial_sample: Option<Value>,
    exhaustive: Option<bool>,
    rule: String,
}

pub struct Violation {
    pub sub: String,
    pub signature: String,
    pub message: String,
    pub replay: PathBuf,
}

pub struct Session {
    pub property: String,
    pub tier: Tier,
    pub seed: u64,
    pub level: String,
    known: KnownFindings,
    start: Instant,
    subs: BTreeMap<String, SubStats>,
    order: Vec<String>,
    pub violations: Vec<Violation>,
    known_hits: BTreeMap<String, u64>,
    pub assumptions: Vec<String>,
    pub notes: Vec<String>,
    pub extra: BTreeMap<String, Value>,
}

fn shard_seed(seed: u64, name: &str, shard: usize) -> u64 {
    hash64(&(seed, name, shard as u64, 0x6a62_7665_7269_66u64))
}

impl Session {
    pub fn new(property: &str, tier: Tier, seed: u64, level: &str) -> Self {
        crate::util::install_panic_hook();
        Self {
            property: property.to_string(),
            tier,
            seed,
            level: level.to_string(),
            known: KnownFindings::load(),
            start: Instant::now(),
            subs: BTreeMap::new(),
            order: Vec::new(),
            violations: Vec::new(),
            known_hits: BTreeMap::new(),
            assumptions: Vec::new(),
            notes: Vec::new(),
            extra: BTreeMap::new(),
        }
    }

    pub fn assume(&mut self, s: &str) {
        self.assumptions.push(s.to_string());
    }

    fn sub(&mut self, name: &str, rule: &str) -> &mut SubStats {
        if !self.subs.contains_key(name) {
            self.order.push(name.to_string());
            let mut s = SubStats::default();
            s.rule = rule.to_string();
            self.subs.insert(name.to_string(), s);
        }
        self.subs.get_mut(name).unwrap()
    }

    /// Record one explicitly enumerated (non-proptest) case.
    pub fn record(&mut self, sub: &str, rule: &str, hash: u64, report: &Report, sample: impl FnOnce() -> Value) {
        let s = self.sub(sub, rule);
        s.evaluations += 1;
        if report.rejected {
            s.rejected += 1;
        }
        for c in &report.classes {
            *s.classes.entry(c.clone()).or_insert(0) += 1;
        }
        for (k, v) in &report.metrics {
            let e = s.metrics_max.entry(k.clone()).or_insert(f64::NEG_INFINITY);
            if *v > *e {
                *e = *v;
            }
        }
        if report.nontrivial {
            let new = s.distinct_nontrivial.insert(hash);
            if new && s.samples.len() < 3 {
                s.samples.push(sample());
            }
        } else if s.first_trivial_sample.is_none() {
            s.first_trivial_sample = Some(sample());
        }
    }

    pub fn set_exhaustive(&mut self, sub: &str, v: bool) {
        if let Some(s) = self.subs.get_mut(sub) {
            s.exhaustive = Some(v);
        }
    }

    /// Handle a failure found outside `run_prop` (enumerations). Returns true if it is a new violation.
    pub fn failure(&mut self, sub: &str, f: &Failure, replay_body: Value) -> bool {
        if let Some(k) = self.known.lookup(&self.property, &f.signature) {
            let n = self.known_hits.entry(k.signature.clone()).or_insert(0);
            if *n == 0 {
                println!("KNOWN-FINDING: property={} {}", self.property, k.what);
            }
            *n += 1;
            return false;
        }
        let path = self.write_replay(sub, &f.signature, &f.message, replay_body);
        println!("VIOLATION property={} replay={}", self.property, path.display());
        println!("  check={} signature={}", sub, f.signature);
        println!("  {}", f.message);
        self.violations.push(Violation {
            sub: sub.to_string(),
            signature: f.signature.clone(),
            message: f.message.clone(),
            replay: path,
        });
        true
    }

    fn write_replay(&self, sub: &str, signature: &str, message: &str, mut body: Value) -> PathBuf {
        let dir = verif_dir().join("replays");
        let _ = std::fs::create_dir_all(&dir);
        if let Value::Object(m) = &mut body {
            m.insert("property".into(), json!(self.property));
            m.insert("check".into(), json!(sub));
            m.insert("tier".into(), json!(self.tier.name()));
            m.insert("seed".into(), json!(self.seed));
            m.insert("signature".into(), json!(signature));
            m.insert("message".into(), json!(message));
        }
        let text = serde_json::to_string_pretty(&body).unwrap_or_default();
        let h = hash64(&(sub, signature, &text));
        let path = dir.join(format!("{}-{:012x}.json", self.property, h & 0xffff_ffff_ffff));
        let _ = std::fs::write(&path, text);
        path
    }

    /// Run one generated sub-check on all shards.
    pub fn run_prop(&mut self, p: &dyn DynProp) {
        let name = p.name();
        let rule = p.rule();
        let tier = self.tier;
        let total = p.cases(tier).max(1);
        let nshards = p.shards().max(1).min(total as usize);
        let tape_len = p.tape_len(tier);
        let stop = AtomicBool::new(false);
        let known = &self.known;
        let property = self.property.clone();
        let seed = self.seed;
        let max_shrink: u32 = std::env::var("VERIF_MAX_SHRINK")
            .ok()
            .and_then(|s| s.parse().ok())
            .unwrap_or(200);

        struct ShardOut {
            stats: SubStats,
            known_hits: BTreeMap<String, u64>,
            failure: Option<(Vec<u32>, Failure, Value)>,
        }

        let outs: Vec<ShardOut> = std::thread::scope(|scope| {
            let handles: Vec<_> = (0..nshards)
                .map(|shard| {
                    let stop = &stop;
                    let name = name.clone();
                    let property = property.clone();
                    scope.spawn(move || {
                        let cases = total / nshards as u32
                            + if (shard as u32) < total % nshards as u32 { 1 } else { 0 };
                        let stats = RefCell::new(SubStats::default());
                        let hits = RefCell::new(BTreeMap::<String, u64>::new());
                        let failed = Cell::new(false);
                        let last_failure = RefCell::new(None::<Failure>);
                        let config = Config {
                            cases,
                            failure_persistence: None,
                            rng_seed: RngSeed::Fixed(shard_seed(seed, &name, shard)),
                            max_shrink_iters: max_shrink,
                            max_global_rejects: u32::MAX,
                            max_local_rejects: u32::MAX,
                            verbose: 0,
                            ..Config::default()
                        };
                        let mut runner = TestRunner::new(config);
                        let strategy = crate::tapegen::TapeStrategy { len: tape_len };
                        let result = runner.run(&strategy, |tape| {
                            if stop.load(Ordering::Relaxed) && !failed.get() {
                                return Ok(());
                            }
                            let counting = !failed.get();
                            let want_case = counting && shard == 0 && {
                                let s = stats.borrow();
                                s.samples.len() < 3
                            };
                            let out = p.run_tape(&tape, tier, want_case);
                            match out.result {
                                Ok(rep) => {
                                    if counting {
                                        let mut s = stats.borrow_mut();
                                        s.evaluations += 1;
                                        if out.overrun > 0 {
                                            s.overrun_cases += 1;
                                        }
                                        if rep.rejected {
                                            s.rejected += 1;
                                        }
                                        for c in &rep.classes {
                                            *s.classes.entry(c.clone()).or_insert(0) += 1;
                                        }
                                        for (k, v) in &rep.metrics {
                                            let e = s.metrics_max.entry(k.clone()).or_insert(f64::NEG_INFINITY);
                                            if *v > *e {
                                                *e = *v;
                                            }
                                        }
                                        if rep.nontrivial {
                                            let new = s.distinct_nontrivial.insert(out.hash);
                                            if new && want_case && s.samples.len() < 3 {
                                                s.samples.push(out.case);
                                            }
                                        } else if want_case && s.first_trivial_sample.is_none() {
                                            s.first_trivial_sample = Some(out.case);
                                        }
                                    }
                                    Ok(())
                                }
                                Err(f) => {
                                    if known.lookup(&property, &f.signature).is_some() {
                                        if counting {
                                            let mut s = stats.borrow_mut();
                                            s.evaluations += 1;
                                            *s.classes
                                                .entry("known-finding".to_string())
                                                .or_insert(0) += 1;
                                            *hits.borrow_mut().entry(f.signature.clone()).or_insert(0) += 1;
                                        }
                                        return Ok(());
                                    }
                                    if counting {
                                        stats.borrow_mut().evaluations += 1;
                                    }
                                    failed.set(true);
                                    stop.store(true, Ordering::Relaxed);
                                    let msg = f.message.clone();
                                    *last_failure.borrow_mut() = Some(f);
                                    Err(TestCaseError::fail(msg))
                                }
                            }
                        });
                        let failure = match result {
                            Ok(()) => None,
                            Err(TestError::Fail(_, tape)) => {
                                // re-run the shrunk tape to obtain its own failure + description
                                let out = p.run_tape(&tape, tier, true);
                                let f = match out.result {
                                    Err(f) => f,
                                    Ok(_) => last_failure.borrow_mut().take().unwrap_or(Failure::new(
                                        "unreproducible",
                                        "shrunk case passed on re-run",
                                    )),
                                };
                                Some((tape, f, out.case))
                            }
                            Err(TestError::Abort(r)) => Some((
                                vec![],
                                Failure::new("proptest-abort", format!("{}", r)),
                                Value::Null,
                            )),
                        };
                        ShardOut {
                            stats: stats.into_inner(),
                            known_hits: hits.into_inner(),
                            failure,
                        }
                    })
                })
                .collect();
            handles.into_iter().map(|h| h.join().expect("shard thread")).collect()
        });

        let mut first_failure = None;
        {
            let s = self.sub(&name, &rule);
            for o in &outs {
                s.evaluations += o.stats.evaluations;
                s.rejected += o.stats.rejected;
                s.overrun_cases += o.stats.overrun_cases;
                s.distinct_nontrivial.extend(o.stats.distinct_nontrivial.iter().copied());
                for (k, v) in &o.stats.classes {
                    *s.classes.entry(k.clone()).or_insert(0) += v;
                }
                for (k, v) in &o.stats.metrics_max {
                    let e = s.metrics_max.entry(k.clone()).or_insert(f64::NEG_INFINITY);
                    if *v > *e {
                        *e = *v;
                    }
                }
                for v in &o.stats.samples {
                    if s.samples.len() < 3 {
                        s.samples.push(v.clone());
                    }
                }
                if s.first_trivial_sample.is_none() {
                    s.first_trivial_sample = o.stats.first_trivial_sample.clone();
                }
            }
        }
        for o in outs {
            for (k, v) in o.known_hits {
                let n = self.known_hits.entry(k.clone()).or_insert(0);
                if *n == 0 {
                    if let Some(e) = self.known.lookup(&self.property, &k) {
                        println!("KNOWN-FINDING: property={} {}", self.property, e.what);
                    }
                }
                *n += v;
            }
            if first_failure.is_none() {
                first_failure = o.failure;
            }
        }
        if let Some((tape, f, case)) = first_failure {
            let body = json!({ "kind": "tape", "tape": tape, "case": case });
            self.failure(&name, &f, body);
        }
    }

    /// Replay a tape for a given sub-check; returns true on pass.
    pub fn replay_tape(&mut self, p: &dyn DynProp, tape: &[u32], tier: Tier) -> bool {
        let out = p.run_tape(tape, tier, true);
        let name = p.name();
        let rule = p.rule();
        match out.result {
            Ok(rep) => {
                self.record(&name, &rule, out.hash, &rep, || out.case);
                true
            }
            Err(f) => {
                let body = json!({ "kind": "tape", "tape": tape, "case": out.case });
                !self.failure(&name, &f, body)
            }
        }
    }

    pub fn elapsed(&self) -> f64 {
        self.start.elapsed().as_secs_f64()
    }

    /// Write the evidence file and return the process exit code.
    pub fn finish(mut self) -> i32 {
        let wall = self.start.elapsed().as_secs_f64();
        let mut evaluations = 0u64;
        let mut distinct = 0u64;
        let mut samples = Vec::new();
        let mut subs = serde_json::Map::new();
        let mut rules = Vec::new();
        let mut all_exhaustive: Option<bool> = None;
        for name in &self.order {
            let s = &self.subs[name];
            evaluations += s.evaluations;
            distinct += s.distinct_nontrivial.len() as u64;
            for v in &s.samples {
                samples.push(json!({ "check": name, "case": v }));
            }
            if s.samples.is_empty() {
                if let Some(v) = &s.first_trivial_sample {
                    samples.push(json!({ "check": name, "trivial": true, "case": v }));
                }
            }
            rules.push(format!("[{}] {}", name, s.rule));
            subs.insert(
                name.clone(),
                json!({
                    "evaluations": s.evaluations,
                    "distinct_nontrivial": s.distinct_nontrivial.len(),
                    "rejected_out_of_domain": s.rejected,
                    "tape_overrun_cases": s.overrun_cases,
                    "classes": s.classes,
                    "max_of_metrics": s.metrics_max,
                    "exhaustive": s.exhaustive,
                }),
            );
            if let Some(e) = s.exhaustive {
                all_exhaustive = Some(all_exhaustive.unwrap_or(true) && e);
            } else {
                all_exhaustive = Some(false);
            }
        }
        let mut coverage = serde_json::Map::new();
        coverage.insert("evaluations".into(), json!(evaluations));
        coverage.insert("distinct_nontrivial".into(), json!(distinct));
        coverage.insert("rule".into(), json!(rules.join(" || ")));
        coverage.insert("samples".into(), Value::Array(samples));
        coverage.insert("exhaustive".into(), json!(all_exhaustive.unwrap_or(false)));
        coverage.insert("checks".into(), Value::Object(subs));
        coverage.insert("known_findings_hit".into(), json!(self.known_hits));
        if !self.notes.is_empty() {
            coverage.insert("notes".into(), json!(self.notes));
        }
        for (k, v) in std::mem::take(&mut self.extra) {
            coverage.insert(k, v);
        }
        let ev = json!({
            "property_id": self.property,
            "tier": self.tier.name(),
            "seed": self.seed,
            "level": self.level,
            "coverage": Value::Object(coverage),
            "assumptions": self.assumptions,
            "wall_s": (wall * 1000.0).round() / 1000.0,
            "violations": self.violations.len(),
        });
        let dir = verif_dir().join("evidence");
        let _ = std::fs::create_dir_all(&dir);
        let path = dir.join(format!("{}.json", self.property));
        if let Err(e) = std::fs::write(&path, serde_json::to_string_pretty(&ev).unwrap()) {
            eprintln!("cannot write evidence {}: {}", path.display(), e);
            return 2;
        }
        println!(
            "{} {} seed={} evaluations={} distinct_nontrivial={} violations={} known={} wall={:.1}s",
            self.property,
            self.tier.name(),
            self.seed,
            evaluations,
            distinct,
            self.violations.len(),
            self.known_hits.len(),
            wall
        );
        if self.violations.is_empty() {
            0
        } else {
            1
        }
    }
}
