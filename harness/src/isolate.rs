//! Process isolation for C18: the real work runs in a child process so that an abort
//! (allocation failure, stack overflow) or a hang is observed and attributed, not fatal.

use std::path::PathBuf;
use std::process::{Command, Stdio};
use std::time::{Duration, Instant};

use serde_json::json;

use crate::runner::Tier;
use crate::util::{hash64, verif_dir};

fn inflight_dir() -> PathBuf {
    let base = if std::path::Path::new("/dev/shm").is_dir() { PathBuf::from("/dev/shm") } else { verif_dir().join("target") };
    base.join(format!("c18-inflight-{}", std::process::id()))
}

/// Child side: exit with code 3 when a case has been in flight for more than 20 s.
pub fn start_hang_monitor() {
    let Ok(dir) = std::env::var("VERIF_INFLIGHT_DIR") else { return };
    std::thread::spawn(move || loop {
        std::thread::sleep(Duration::from_secs(5));
        if let Ok(rd) = std::fs::read_dir(&dir) {
            for e in rd.flatten() {
                if let Ok(md) = e.metadata() {
                    if let Ok(age) = md.modified().and_then(|m| m.elapsed().map_err(std::io::Error::other)) {
                        if age > Duration::from_secs(20) && e.path().extension().map(|x| x == "json").unwrap_or(false) {
                            println!("SUSPECT-HANG: a load has been running for {:?}: {}", age, e.path().display());
                            std::process::exit(3);
                        }
                    }
                }
            }
        }
    });
}

fn run_with_timeout(mut cmd: Command, limit: Duration) -> Option<std::process::ExitStatus> {
    let mut child = cmd.spawn().ok()?;
    let start = Instant::now();
    loop {
        match child.try_wait() {
            Ok(Some(st)) => return Some(st),
            Ok(None) => {
                if start.elapsed() > limit {
                    let _ = child.kill();
                    let _ = child.wait();
                    return None;
                }
                std::thread::sleep(Duration::from_millis(50));
            }
            Err(_) => return None,
        }
    }
}

pub fn run_isolated(id: &str, tier: Tier, seed: u64) -> i32 {
    let exe = std::env::current_exe().expect("current exe");
    let dir = inflight_dir();
    let _ = std::fs::remove_dir_all(&dir);
    let _ = std::fs::create_dir_all(&dir);
    let status = Command::new(&exe)
        .args([id, "--tier", tier.name()])
        .env("VERIF_C18_CHILD", "1")
        .env("VERIF_INFLIGHT_DIR", &dir)
        .env("VERIF_SEED", format!("{}", seed as i64))
        .stdin(Stdio::null())
        .status();
    let code = match status {
        Ok(st) => st.code(),
        Err(e) => {
            eprintln!("cannot start the child process: {}", e);
            return 2;
        }
    };
    if let Some(c) = code {
        if c == 0 || c == 1 || c == 2 {
            let _ = std::fs::remove_dir_all(&dir);
            return c;
        }
    }
    // the child died (signal / abort) or reported a suspected hang: attribute it
    println!("child process ended abnormally ({:?}); re-running the in-flight cases in isolation", code);
    let mut culprit = None;
    if let Ok(rd) = std::fs::read_dir(&dir) {
        let mut bins: Vec<PathBuf> = rd.flatten().map(|e| e.path()).filter(|p| p.extension().map(|x| x == "bin").unwrap_or(false)).collect();
        bins.sort();
        for b in bins {
            let mut cmd = Command::new(&exe);
            cmd.args([id, "--replay-bytes", b.to_str().unwrap_or("")]).env("VERIF_C18_CHILD", "1").stdin(Stdio::null()).stdout(Stdio::null());
            match run_with_timeout(cmd, Duration::from_secs(60)) {
                Some(st) if st.code() == Some(0) => {}
                Some(st) if st.code() == Some(1) => {
                    culprit = Some((b, "panic or bound violation".to_string()));
                    break;
                }
                Some(st) => {
                    culprit = Some((b, format!("process died: {:?}", st)));
                    break;
                }
                None => {
                    culprit = Some((b, "no result within 60 s (non-termination)".to_string()));
                    break;
                }
            }
        }
    }
    let result = match culprit {
        Some((file, why)) => {
            let bytes = std::fs::read(&file).unwrap_or_default();
            let rdir = verif_dir().join("replays");
            let _ = std::fs::create_dir_all(&rdir);
            let h = hash64(&bytes) & 0xffff_ffff_ffff;
            let vpath = rdir.join(format!("C18-{:012x}.htsvoice", h));
            let _ = std::fs::write(&vpath, &bytes);
            let rpath = rdir.join(format!("C18-{:012x}.json", h));
            let body = json!({ "property": "C18", "kind": "bytes-file", "path": vpath.display().to_string(), "check": "isolated-load", "signature": "process-death-or-hang", "message": why });
            let _ = std::fs::write(&rpath, serde_json::to_string_pretty(&body).unwrap_or_default());
            println!("VIOLATION property=C18 replay={}", rpath.display());
            println!("  loading this file: {}", why);
            let ev = json!({
                "property_id": "C18", "tier": tier.name(), "seed": seed, "level": "fault_enumeration",
                "coverage": { "evaluations": 1, "distinct_nontrivial": 1, "rule": "child process died; the in-flight case was re-run in isolation", "samples": [body] },
                "assumptions": [], "wall_s": 0.0, "violations": 1
            });
            let _ = std::fs::create_dir_all(verif_dir().join("evidence"));
            let _ = std::fs::write(verif_dir().join("evidence/C18.json"), serde_json::to_string_pretty(&ev).unwrap_or_default());
            1
        }
        None => {
            println!("INCONCLUSIVE: the child process died but no in-flight case reproduces it in isolation");
            2
        }
    };
    let _ = std::fs::remove_dir_all(&dir);
    result
}
