//! Verification harness for jpreprocess/jbonsai: property-based testing and fuzzing.
pub mod alloc_count;
pub mod bundled;
pub mod corpus;
pub mod dsp;
pub mod engine_case;
pub mod engine_util;
pub mod faults;
pub mod fuzz_support;
pub mod hts_reader;
pub mod isolate;
pub mod props;
pub mod runner;
pub mod tape;
pub mod tapegen;
pub mod util;
pub mod voice;
