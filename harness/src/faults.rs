//! Fault operators on valid `.htsvoice` bytes (shared by C18's enumeration, its generated part
//! and the libFuzzer mutator).

use crate::tape::Tape;

#[derive(Debug, Clone)]
pub struct VoiceIndex {
    /// byte offset of the first data byte (after "[DATA]\n")
    pub data_start: usize,
    /// header lines: (byte range in file, key, value)
    pub lines: Vec<(std::ops::Range<usize>, String, String)>,
    /// section marker positions
    pub markers: Vec<usize>,
    /// (key, start, end) inclusive ranges into the data section
    pub ranges: Vec<(String, usize, usize)>,
    /// numeric tokens in header values: byte range in file
    pub numbers: Vec<std::ops::Range<usize>>,
}

pub fn index_voice(bytes: &[u8]) -> Option<VoiceIndex> {
    let pos = bytes.windows(8).position(|w| w == b"\n[DATA]\n")?;
    let data_start = pos + 8;
    let head = std::str::from_utf8(&bytes[..data_start]).ok()?;
    let mut lines = Vec::new();
    let mut markers = Vec::new();
    let mut ranges = Vec::new();
    let mut numbers = Vec::new();
    let mut off = 0;
    for line in head.split_inclusive('\n') {
        let body = line.trim_end_matches('\n');
        if body.starts_with('[') {
            markers.push(off);
        } else if let Some((k, v)) = body.split_once(':') {
            lines.push((off..off + line.len(), k.to_string(), v.to_string()));
            let voff = off + k.len() + 1;
            // numeric tokens
            let vb = v.as_bytes();
            let mut i = 0;
            while i < vb.len() {
                if vb[i].is_ascii_digit() {
                    let s = i;
                    while i < vb.len() && vb[i].is_ascii_digit() {
                        i += 1;
                    }
                    numbers.push(voff + s..voff + i);
                } else {
                    i += 1;
                }
            }
            if k.contains("PDF") || k.contains("TREE") || k.contains("WIN") {
                for r in v.split(',') {
                    if let Some((a, b)) = r.split_once('-') {
                        if let (Ok(a), Ok(b)) = (a.trim().parse::<usize>(), b.trim().parse::<usize>()) {
                            ranges.push((k.to_string(), a, b));
                        }
                    }
                }
            }
        }
        off += line.len();
    }
    Some(VoiceIndex { data_start, lines, markers, ranges, numbers })
}

/// Text spans of a voice file: the header (up to the first data byte) and every tree / window block.
pub fn text_spans(bytes: &[u8], idx: &VoiceIndex) -> Vec<(&'static str, usize, usize)> {
    let mut spans = vec![("header", 0, idx.data_start.min(bytes.len()))];
    for (k, a, b) in &idx.ranges {
        if k.contains("TREE") || k.contains("WIN") {
            let s = idx.data_start.saturating_add(*a).min(bytes.len());
            let e = idx.data_start.saturating_add(*b).saturating_add(1).min(bytes.len());
            if s < e {
                spans.push((if k.contains("TREE") { "tree" } else { "window" }, s, e));
            }
        }
    }
    spans
}

/// Characters with a structural meaning somewhere in the format, used for single-character
/// substitutions (a one-bit error often turns a letter into one of them: '_'^2 = ']', 'M'^16 = ']').
pub const STRUCTURAL_CHARS: &[u8] = b"[]:=,-\n\"{}*? 0.";

pub const NUMBER_REPLACEMENTS: &[&str] = &[
    "0", "1", "+1", "-1", "4294967296", "18446744073709551615", "18446744073709551616", "-1", "abc", "99999999999999999999999999", "",
    // valid UTF-8, not ASCII: full-width digits (Japanese IME), superscript, digit + multi-byte tail
    "\u{ff14}8000", "\u{b2}40", "5\u{ff10}", "\u{e9}",
];

/// Replace the numeric token `tok` by replacement `r` ("+1"/"-1" are relative to its value).
pub fn replace_number(bytes: &[u8], tok: &std::ops::Range<usize>, r: usize) -> Vec<u8> {
    let old: u128 = std::str::from_utf8(&bytes[tok.clone()]).ok().and_then(|s| s.parse().ok()).unwrap_or(0);
    let rep = NUMBER_REPLACEMENTS[r % NUMBER_REPLACEMENTS.len()];
    let new = match (r % NUMBER_REPLACEMENTS.len(), rep) {
        (2, _) => format!("{}", old.saturating_add(1)),
        (3, _) => format!("{}", old.saturating_sub(1)),
        _ => rep.to_string(),
    };
    let mut out = bytes[..tok.start].to_vec();
    out.extend_from_slice(new.as_bytes());
    out.extend_from_slice(&bytes[tok.end..]);
    out
}

pub fn truncation_points(bytes: &[u8], idx: &VoiceIndex) -> Vec<usize> {
    let mut p = vec![0usize, 1, idx.data_start, bytes.len().saturating_sub(1)];
    for m in &idx.markers {
        p.push(*m);
    }
    for (_, a, b) in &idx.ranges {
        p.push(idx.data_start.saturating_add(*a));
        p.push(idx.data_start.saturating_add(*b));
        p.push(idx.data_start.saturating_add(*b).saturating_add(1));
    }
    let mut out = Vec::new();
    for x in p {
        for d in [-1i128, 0, 1] {
            let y = x as i128 + d;
            if y >= 0 && (y as u128) < bytes.len() as u128 {
                out.push(y as usize);
            }
        }
    }
    out.sort();
    out.dedup();
    out
}

const TEXT_EDITS: &[(&str, &str)] = &[
    ("QS ", "QS"),
    ("QS ", "QX "),
    ("{*}[", "{*}[99999999999999999999"),
    ("{*}[", "{*}[-"),
    ("{*}", "{?}"),
    ("\n{\n", "\n\n"),
    ("\n}\n", "\n\n"),
    ("\" }", "\""),
    ("{ \"", "{ "),
    ("\",\"", "\",,\""),
    ("_s", "_"),
    ("\"\n", "\n"),
    ("*", "25?"),
    ("*", "?????????????????????????"),
    ("-", "-999"),
    ("\"", ""),
    (" ", ""),
    ("\n", ""),
    ("0", "-1"),
    ("1", "x"),
];

/// One generated fault on `bytes`; returns the faulty bytes and a description.
pub fn apply_fault(t: &mut Tape, bytes: &[u8]) -> (Vec<u8>, String) {
    let Some(idx) = index_voice(bytes) else {
        // already broken header: byte-level faults only
        let mut out = bytes.to_vec();
        if !out.is_empty() {
            let p = t.below(out.len());
            out[p] ^= 1 << t.below(8);
        }
        return (out, "bit-flip(no-index)".into());
    };
    match t.weighted(&[4, 6, 2, 3, 6, 3, 1, 2]) {
        0 => {
            let pts = truncation_points(bytes, &idx);
            let p = if t.chance(0.7) { *t.pick(&pts) } else { t.below(bytes.len() + 1) };
            (bytes[..p].to_vec(), format!("truncate@{}", p))
        }
        1 => {
            if idx.numbers.is_empty() {
                return (bytes.to_vec(), "noop".into());
            }
            let k = t.below(idx.numbers.len());
            let r = t.below(NUMBER_REPLACEMENTS.len());
            (replace_number(bytes, &idx.numbers[k], r), format!("number#{}->{}", k, NUMBER_REPLACEMENTS[r]))
        }
        2 => {
            // invert or swap ranges: operate on the text of the header
            let head = String::from_utf8_lossy(&bytes[..idx.data_start]).to_string();
            let rs: Vec<(usize, usize)> = {
                let b = head.as_bytes();
                let mut v = Vec::new();
                let mut i = 0;
                while i < b.len() {
                    if b[i].is_ascii_digit() {
                        let s = i;
                        while i < b.len() && b[i].is_ascii_digit() {
                            i += 1;
                        }
                        if i < b.len() && b[i] == b'-' && i + 1 < b.len() && b[i + 1].is_ascii_digit() {
                            i += 1;
                            while i < b.len() && b[i].is_ascii_digit() {
                                i += 1;
                            }
                            v.push((s, i));
                        }
                    } else {
                        i += 1;
                    }
                }
                v
            };
            if rs.is_empty() {
                return (bytes.to_vec(), "noop".into());
            }
            let a = rs[t.below(rs.len())];
            let mut new_head = head.clone();
            let desc;
            if t.chance(0.5) || rs.len() < 2 {
                let txt = &head[a.0..a.1];
                let (x, y) = txt.split_once('-').unwrap();
                new_head.replace_range(a.0..a.1, &format!("{}-{}", y, x));
                desc = "invert-range".to_string();
            } else {
                let b = rs[t.below(rs.len())];
                let (first, second) = if a.0 <= b.0 { (a, b) } else { (b, a) };
                if first.1 <= second.0 {
                    let fa = head[first.0..first.1].to_string();
                    let fb = head[second.0..second.1].to_string();
                    new_head.replace_range(second.0..second.1, &fa);
                    new_head.replace_range(first.0..first.1, &fb);
                }
                desc = "swap-ranges".to_string();
            }
            let mut out = new_head.into_bytes();
            out.extend_from_slice(&bytes[idx.data_start..]);
            (out, desc)
        }
        3 => {
            if idx.lines.is_empty() {
                return (bytes.to_vec(), "noop".into());
            }
            let k = t.below(idx.lines.len());
            let r = idx.lines[k].0.clone();
            let mut out = bytes[..r.start].to_vec();
            let desc = if t.chance(0.6) {
                format!("delete-line:{}", idx.lines[k].1)
            } else {
                out.extend_from_slice(&bytes[r.clone()]);
                out.extend_from_slice(&bytes[r.clone()]);
                format!("duplicate-line:{}", idx.lines[k].1)
            };
            out.extend_from_slice(&bytes[r.end..]);
            (out, desc)
        }
        4 => {
            // edit inside a tree text block
            let trees: Vec<&(String, usize, usize)> = idx.ranges.iter().filter(|r| r.0.contains("TREE")).collect();
            if trees.is_empty() {
                return (bytes.to_vec(), "noop".into());
            }
            let (_, a, b) = trees[t.below(trees.len())];
            let (s, e) = (idx.data_start.saturating_add(*a), idx.data_start.saturating_add(*b).saturating_add(1).min(bytes.len()));
            if s >= e {
                return (bytes.to_vec(), "noop".into());
            }
            if t.chance(0.3) {
                // line-level edits
                let text = String::from_utf8_lossy(&bytes[s..e]).to_string();
                let mut lines: Vec<String> = text.split_inclusive('\n').map(|l| l.to_string()).collect();
                if lines.len() < 2 {
                    return (bytes.to_vec(), "noop".into());
                }
                // blanking keeps the length of the block, so all position ranges stay valid and the
                // damaged tree really reaches the tree converter
                let blank = |l: &str| -> String { l.chars().map(|c| if c == '\n' { '\n' } else { ' ' }).collect() };
                let desc = match t.below(5) {
                    0 => {
                        let k = t.below(lines.len());
                        lines.remove(k);
                        "tree-delete-line"
                    }
                    4 => {
                        let k = t.below(lines.len());
                        lines[k] = blank(&lines[k]);
                        "tree-blank-line"
                    }
                    1 => {
                        let k = t.below(lines.len());
                        let l = lines[k].clone();
                        lines.insert(k, l);
                        "tree-duplicate-line"
                    }
                    2 => {
                        // empty the body of one braced tree (keep "{" and "}"), length preserved
                        let opens: Vec<usize> = lines.iter().enumerate().filter(|(_, l)| l.trim() == "{").map(|(i, _)| i).collect();
                        if let Some(&o) = opens.get(t.below(opens.len().max(1))) {
                            if let Some(c) = (o + 1..lines.len()).find(|i| lines[*i].trim() == "}") {
                                for l in lines.iter_mut().take(c).skip(o + 1) {
                                    *l = blank(l);
                                }
                            }
                        }
                        "tree-empty-body"
                    }
                    _ => {
                        let (a, b) = (t.below(lines.len()), t.below(lines.len()));
                        lines.swap(a, b);
                        "tree-swap-lines"
                    }
                };
                let mut out = bytes[..s].to_vec();
                out.extend_from_slice(lines.concat().as_bytes());
                out.extend_from_slice(&bytes[e..]);
                return (out, desc.into());
            }
            let (from, to) = TEXT_EDITS[t.below(TEXT_EDITS.len())];
            let block = &bytes[s..e];
            let occ: Vec<usize> = block.windows(from.len()).enumerate().filter(|(_, w)| *w == from.as_bytes()).map(|(i, _)| i).take(4000).collect();
            if occ.is_empty() {
                return (bytes.to_vec(), "noop".into());
            }
            let p = s + occ[t.below(occ.len())];
            let mut out = bytes[..p].to_vec();
            out.extend_from_slice(to.as_bytes());
            out.extend_from_slice(&bytes[p + from.len()..]);
            // NB: offsets of later blocks shift when the replacement has another length - that is
            // itself a realistic fault (positions no longer match)
            (out, format!("tree-edit:{:?}->{:?}", from, to))
        }
        5 => {
            // byte flip in a text section (header or tree/window text)
            let mut spans: Vec<(usize, usize)> = vec![(0, idx.data_start)];
            for (k, a, b) in &idx.ranges {
                if k.contains("TREE") || k.contains("WIN") {
                    spans.push((idx.data_start.saturating_add(*a).min(bytes.len()), idx.data_start.saturating_add(*b).saturating_add(1).min(bytes.len())));
                }
            }
            let (s, e) = spans[t.below(spans.len())];
            let mut out = bytes.to_vec();
            if s < e {
                let p = s + t.below(e - s);
                out[p] = match t.below(4) {
                    0 => out[p] ^ (1 << t.below(8)),
                    1 => 0xFF,
                    2 => b'\n',
                    _ => *t.pick(b"0123456789-,:[]{}\"*? "),
                };
            }
            (out, "byte-flip-in-text".into())
        }
        6 => {
            let mut out = bytes.to_vec();
            let p = t.below(idx.data_start.max(1));
            if t.chance(0.5) {
                // non-UTF-8 byte in the header
                out.insert(p, *t.pick(&[0xFFu8, 0xC0, 0x80, 0xFE]));
                (out, "non-utf8-header".into())
            } else {
                // valid but non-ASCII character replacing one header byte (or the first digit of a number)
                let p = if !idx.numbers.is_empty() && t.chance(0.6) { idx.numbers[t.below(idx.numbers.len())].start } else { p };
                let ch = *t.pick(&["\u{ff11}", "\u{e9}", "\u{3042}", "\u{1F600}", "\u{b2}"]);
                out.splice(p..(p + 1).min(out.len()), ch.bytes());
                (out, "utf8-char-in-header".into())
            }
        }
        _ => {
            // flip a byte in a binary PDF block (counts or floats)
            let pdfs: Vec<&(String, usize, usize)> = idx.ranges.iter().filter(|r| r.0.contains("PDF")).collect();
            if pdfs.is_empty() {
                return (bytes.to_vec(), "noop".into());
            }
            let (_, a, b) = pdfs[t.below(pdfs.len())];
            let mut out = bytes.to_vec();
            let s = idx.data_start.saturating_add(*a);
            let e = idx.data_start.saturating_add(*b).saturating_add(1).min(out.len());
            if s < e {
                // the per-tree count table is at the start of the block
                let p = if t.chance(0.7) { s + t.below(16.min(e - s)) } else { s + t.below(e - s) };
                out[p] = *t.pick(&[0xFFu8, 0x00, 0x7F, 0x80, 0x01]);
            }
            (out, "pdf-byte".into())
        }
    }
}
