//! Shared generator for engine-level cases: voice choice, labels, condition.

use std::sync::{Arc, Mutex, OnceLock};

use serde::Serialize;

use jbonsai::model::{load_htsvoice_file, Voice};
use jbonsai::Engine;

use crate::bundled::bundled_engine;
use crate::corpus::{gen_label_lines, Source};
use crate::runner::Failure;
use crate::tape::Tape;
use crate::voice::{gen_voice, perturbed_bundled, write_temp, GenOpts, TempVoice, VoiceSpec};

pub const DB: f64 = 0.115_129_254_649_702_28; // ln(10)/20
pub const HALF_TONE: f64 = 0.057_762_265_046_662_11; // ln(2)/12
pub const NPERTURBED: usize = 6;

#[derive(Debug, Clone, Serialize)]
pub enum VoiceChoice {
    Bundled,
    /// one of NPERTURBED fixed PDF-perturbed copies of the bundled voice
    Perturbed(usize),
    Generated(Box<VoiceSpec>),
    /// a generated voice plus same-metadata variants, combined with non-uniform (non-dyadic)
    /// interpolation weights: [duration, parameter per stream.., gv per stream..]
    GeneratedSet { voices: Vec<VoiceSpec>, weights: Vec<Vec<f64>> },
}

impl VoiceChoice {
    pub fn class(&self) -> String {
        match self {
            VoiceChoice::Bundled => "voice:bundled".into(),
            VoiceChoice::Perturbed(_) => "voice:perturbed".into(),
            VoiceChoice::Generated(v) => format!(
                "voice:generated-{}-{}streams",
                if v.stage == 0 { "mcp" } else { "lsp" },
                v.streams.len()
            ),
            VoiceChoice::GeneratedSet { voices, .. } => format!("voice:generated-set-of-{}", voices.len()),
        }
    }
    /// The (first) generated spec, if any.
    pub fn base_spec(&self) -> Option<&VoiceSpec> {
        match self {
            VoiceChoice::Generated(v) => Some(v),
            VoiceChoice::GeneratedSet { voices, .. } => voices.first(),
            _ => None,
        }
    }
    pub fn nstreams(&self) -> usize {
        self.base_spec().map(|v| v.streams.len()).unwrap_or(3)
    }
}

/// Arbitrary (non-dyadic) positive weights whose in-order sum is within f64::EPSILON of 1.
pub fn simplex_weights(t: &mut Tape, n: usize) -> Vec<f64> {
    if n == 1 {
        return vec![1.0];
    }
    let mut w: Vec<f64> = (0..n - 1).map(|_| t.uniform(0.05, 1.0) / n as f64).collect();
    let s: f64 = w.iter().sum();
    w.push(1.0 - s);
    let total: f64 = w.iter().sum();
    if (total - 1.0).abs() <= f64::EPSILON && w[n - 1] > 0.0 {
        w
    } else {
        let mut v = vec![1.0 / 64.0; n];
        v[0] = 1.0 - (n as f64 - 1.0) / 64.0;
        v
    }
}

pub fn load_spec_voice(spec: &VoiceSpec) -> Result<Arc<Voice>, Failure> {
    let tmp = TempVoice(write_temp(&spec.to_bytes(), "set"));
    let v = load_htsvoice_file(&tmp.0).map_err(|e| Failure::new("load-valid-voice", format!("generated voice rejected: {}", e)))?;
    Ok(Arc::new(v))
}

#[derive(Debug, Clone)]
pub struct VoiceInfo {
    pub stage: usize,
    pub use_log_gain: bool,
    pub alpha0: f64,
    pub nstate: usize,
    pub nstreams: usize,
    pub rate0: usize,
    pub fperiod0: usize,
}

/// Bytes of perturbed copy `k` (deterministic function of k).
pub fn perturbed_bytes(k: usize) -> &'static [u8] {
    static P: OnceLock<Vec<OnceLock<Vec<u8>>>> = OnceLock::new();
    let v = P.get_or_init(|| (0..NPERTURBED).map(|_| OnceLock::new()).collect());
    v[k % NPERTURBED].get_or_init(|| {
        // fixed tape per copy: the copies are part of the test fixture, not of the generated case
        let words: Vec<u32> = (0..8u32).map(|i| (k as u32 + 1).wrapping_mul(0x9E37_79B9).wrapping_add(i.wrapping_mul(0x85EB_CA6B))).collect();
        let mut t = Tape::new(&words);
        let strength = [0.3, 1.0, 0.1, 0.6, 2.0, 0.8][k % NPERTURBED];
        perturbed_bundled(&mut t, strength)
    })
}

pub fn perturbed_voice(k: usize) -> Result<Arc<Voice>, Failure> {
    static V: OnceLock<Mutex<Vec<Option<Arc<Voice>>>>> = OnceLock::new();
    let m = V.get_or_init(|| Mutex::new(vec![None; NPERTURBED]));
    let mut g = m.lock().unwrap();
    if let Some(v) = &g[k % NPERTURBED] {
        return Ok(v.clone());
    }
    let tmp = TempVoice(write_temp(perturbed_bytes(k), "perturbed"));
    let v = load_htsvoice_file(&tmp.0).map_err(|e| Failure::new("load-valid-voice", format!("perturbed copy of the bundled voice rejected: {}", e)))?;
    let v = Arc::new(v);
    g[k % NPERTURBED] = Some(v.clone());
    Ok(v)
}

pub fn bundled_voice_arc() -> Result<Arc<Voice>, Failure> {
    let e = bundled_engine().map_err(|e| Failure::new("bundled-load", e))?;
    Ok(e.voices[0].clone())
}

pub fn engine_from_voices(voices: Vec<Arc<Voice>>) -> Result<Engine, Failure> {
    let vs = jbonsai::model::VoiceSet::new(voices).map_err(|e| Failure::new("voiceset", format!("VoiceSet::new failed: {}", e)))?;
    let mut cond = jbonsai::Condition::default();
    cond.load_model(&vs).map_err(|e| Failure::new("load-model", format!("Condition::load_model failed: {}", e)))?;
    Ok(Engine::new(vs, cond))
}

pub fn build_engine(v: &VoiceChoice) -> Result<(Engine, VoiceInfo), Failure> {
    match v {
        VoiceChoice::Bundled => {
            let e = bundled_engine().map_err(|e| Failure::new("bundled-load", e))?;
            Ok((e.clone(), VoiceInfo { stage: 0, use_log_gain: false, alpha0: 0.55, nstate: 5, nstreams: 3, rate0: 48000, fperiod0: 240 }))
        }
        VoiceChoice::Perturbed(k) => {
            let e = engine_from_voices(vec![perturbed_voice(*k)?])?;
            Ok((e, VoiceInfo { stage: 0, use_log_gain: false, alpha0: 0.55, nstate: 5, nstreams: 3, rate0: 48000, fperiod0: 240 }))
        }
        VoiceChoice::GeneratedSet { voices, weights } => {
            let mut vs = Vec::new();
            for spec in voices {
                vs.push(load_spec_voice(spec)?);
            }
            let mut e = engine_from_voices(vs)?;
            let base = &voices[0];
            let ns = base.streams.len();
            let iw = e.condition.get_interporation_weight_mut();
            let bad = |e: jbonsai::model::interporation_weight::WeightError| Failure::new("valid-weights-rejected", e.to_string());
            iw.set_duration(&weights[0]).map_err(bad)?;
            for i in 0..ns {
                iw.set_parameter(i, &weights[1 + i]).map_err(bad)?;
                iw.set_gv(i, &weights[1 + ns + i]).map_err(bad)?;
            }
            Ok((
                e,
                VoiceInfo {
                    stage: base.stage,
                    use_log_gain: base.use_log_gain,
                    alpha0: base.alpha,
                    nstate: base.num_states,
                    nstreams: ns,
                    rate0: base.sampling_frequency,
                    fperiod0: base.frame_period,
                },
            ))
        }
        VoiceChoice::Generated(spec) => {
            let tmp = TempVoice(write_temp(&spec.to_bytes(), "gen"));
            let e = Engine::load(&[&tmp.0]).map_err(|e| Failure::new("load-valid-voice", format!("generated voice rejected: {}", e)))?;
            Ok((
                e,
                VoiceInfo {
                    stage: spec.stage,
                    use_log_gain: spec.use_log_gain,
                    alpha0: spec.alpha,
                    nstate: spec.num_states,
                    nstreams: spec.streams.len(),
                    rate0: spec.sampling_frequency,
                    fperiod0: spec.frame_period,
                },
            ))
        }
    }
}

/// Voice mix: generated voices dominate (fast), the bundled voice and its perturbed copies keep
/// a fixed share. `heavy_share` in percent for bundled+perturbed.
pub fn gen_voice_choice(t: &mut Tape, heavy_share: u32, opts: GenOpts) -> VoiceChoice {
    match t.weighted(&[100 - heavy_share, heavy_share / 2, heavy_share - heavy_share / 2]) {
        0 => {
            let base = gen_voice(t, opts);
            // one generated case in eight is a voice SET (2..4 voices, non-uniform weights)
            if t.chance(0.125) {
                let n_extra = t.urange(1, 3);
                let ns = base.streams.len();
                let mut voices = vec![base.clone()];
                for _ in 0..n_extra {
                    voices.push(crate::voice::variant_voice(t, &base));
                }
                let weights = (0..1 + 2 * ns).map(|_| simplex_weights(t, n_extra + 1)).collect();
                VoiceChoice::GeneratedSet { voices, weights }
            } else {
                VoiceChoice::Generated(Box::new(base))
            }
        }
        1 => VoiceChoice::Bundled,
        _ => VoiceChoice::Perturbed(t.below(NPERTURBED)),
    }
}

#[derive(Debug, Clone, Serialize, PartialEq)]
pub struct Cond {
    pub alpha: Option<f64>,
    pub beta: f64,
    pub gv_weight: Vec<Option<f64>>,
    pub msd_threshold: Vec<Option<f64>>,
    pub half_tone: f64,
    pub volume_db: f64,
    pub speed: f64,
    pub rate: Option<usize>,
    pub fperiod: Option<usize>,
}

impl Cond {
    pub fn default_for(nstreams: usize) -> Self {
        Self {
            alpha: None,
            beta: 0.0,
            gv_weight: vec![None; nstreams],
            msd_threshold: vec![None; nstreams],
            half_tone: 0.0,
            volume_db: 0.0,
            speed: 1.0,
            rate: None,
            fperiod: None,
        }
    }
    pub fn is_default(&self) -> bool {
        *self == Self::default_for(self.gv_weight.len())
    }
    pub fn apply(&self, e: &mut Engine) {
        self.apply_opts(e, true)
    }

    /// `with_volume = false` leaves the engine's current volume alone.
    pub fn apply_opts(&self, e: &mut Engine, with_volume: bool) {
        let c = &mut e.condition;
        if let Some(a) = self.alpha {
            c.set_alpha(a);
        }
        c.set_beta(self.beta);
        for (i, g) in self.gv_weight.iter().enumerate() {
            if let Some(g) = g {
                c.set_gv_weight(i, *g);
            }
        }
        for (i, g) in self.msd_threshold.iter().enumerate() {
            if let Some(g) = g {
                c.set_msd_threshold(i, *g);
            }
        }
        c.set_additional_half_tone(self.half_tone);
        if with_volume {
            c.set_volume(self.volume_db);
        }
        c.set_speed(self.speed);
        if let Some(r) = self.rate {
            c.set_sampling_frequency(r);
        }
        if let Some(f) = self.fperiod {
            c.set_fperiod(f);
        }
    }
}

/// default | envelope edge | uniform with weights 3/2/5
fn tri<T: Clone>(t: &mut Tape, default: T, edges: &[T], uniform: impl FnOnce(&mut Tape) -> T) -> T {
    match t.weighted(&[3, 2, 5]) {
        0 => default,
        1 => t.pick(edges).clone(),
        _ => uniform(t),
    }
}

/// A magnitude in [0, hi]: uniform, or (30 %) log-uniform down to 1e-5 x hi - settings that are
/// "almost off" are as legal as any other.
fn magnitude(t: &mut Tape, hi: f64) -> f64 {
    if t.chance(0.3) {
        t.log_uniform(1e-5 * hi, hi)
    } else {
        t.uniform(0.0, hi)
    }
}

fn signed_magnitude(t: &mut Tape, hi: f64) -> f64 {
    let m = magnitude(t, hi);
    if t.chance(0.5) {
        -m
    } else {
        m
    }
}

/// Condition inside the operating envelope of C01.
pub fn gen_cond(t: &mut Tape, nstreams: usize) -> Cond {
    Cond {
        alpha: tri(t, None, &[Some(0.0), Some(0.8)], |t| Some(magnitude(t, 0.8))),
        beta: tri(t, 0.0, &[0.8, 0.0], |t| magnitude(t, 0.8)),
        gv_weight: (0..nstreams).map(|_| tri(t, None, &[Some(0.0), Some(2.0)], |t| Some(magnitude(t, 2.0)))).collect(),
        // edges incl. thresholds that EQUAL a voicing weight found in the voices (0.05 / 0.95 / 0.5
        // as the f32 values the files hold): a state is voiced only if its weight exceeds the threshold
        msd_threshold: (0..nstreams).map(|_| tri(t, None, &[Some(0.0), Some(1.0), Some(0.05f32 as f64), Some(0.95f32 as f64), Some(0.5)], |t| Some(t.uniform(0.0, 1.0)))).collect(),
        half_tone: tri(t, 0.0, &[-24.0, 24.0], |t| signed_magnitude(t, 24.0)),
        volume_db: tri(t, 0.0, &[-20.0, 20.0], |t| signed_magnitude(t, 20.0)),
        speed: tri(t, 1.0, &[0.25, 4.0], |t| t.log_uniform(0.25, 4.0)),
        rate: tri(t, None, &[Some(8000), Some(96000)], |t| Some(*t.pick(&[16000usize, 22050, 44100, 48000, 8000, 96000]))),
        fperiod: tri(t, None, &[Some(1), Some(480)], |t| Some(t.urange(1, 480))),
    }
}

#[derive(Debug, Clone, Serialize)]
pub struct EngineCase {
    pub voice: VoiceChoice,
    pub source: String,
    pub labels: Vec<String>,
    pub cond: Cond,
}

pub fn gen_engine_case(t: &mut Tape, max_labels: usize, heavy_share: u32, allow_random: bool, opts: GenOpts) -> EngineCase {
    let n = t.below(max_labels + 1);
    let (labels, src) = gen_label_lines(t, n, allow_random);
    let voice = gen_voice_choice(t, heavy_share, opts);
    let nstreams = voice.nstreams();
    let cond = gen_cond(t, nstreams);
    EngineCase { voice, source: src.name().to_string(), labels, cond }
}

pub fn source_is_random(s: &str) -> bool {
    s == Source::Random.name()
}
