//! Helpers around `Engine`: hook trajectories, harness-side rendering, condition application.

use jbonsai::speech::SpeechGenerator;
use jbonsai::vocoder::Vocoder;
use jbonsai::Engine;

pub type Traj = Vec<Vec<f64>>;

#[derive(Debug, Clone)]
pub struct Trajectories {
    pub spectrum: Traj,
    pub lf0: Traj,
    pub lpf: Traj,
}

pub fn trajectories(g: &SpeechGenerator) -> Trajectories {
    let (s, f, l) = g.verif_parameters();
    Trajectories {
        spectrum: s.to_vec(),
        lf0: f.to_vec(),
        lpf: l.to_vec(),
    }
}

#[derive(Debug, Clone)]
pub struct RenderParams {
    pub nmcp: usize,
    pub nlpf: usize,
    pub stage: usize,
    pub use_log_gain: bool,
    pub rate: usize,
    pub alpha: f64,
    pub beta: f64,
    pub volume: f64,
    pub fperiod: usize,
}

/// Render trajectories with a vocoder built by the harness (public API only).
pub fn render(p: &RenderParams, tr: &Trajectories) -> Vec<f64> {
    let vocoder = Vocoder::new(p.nmcp, p.nlpf, p.stage, p.use_log_gain, p.rate, p.alpha, p.beta, p.volume, p.fperiod);
    SpeechGenerator::new(p.fperiod, vocoder, tr.spectrum.clone(), tr.lf0.clone(), tr.lpf.clone()).generate_all()
}

pub fn stream_lengths(engine: &Engine) -> (usize, usize) {
    let nmcp = engine.voices.stream_metadata(0).vector_length;
    let nlpf = if engine.voices.global_metadata().num_streams > 2 {
        engine.voices.stream_metadata(2).vector_length
    } else {
        0
    };
    (nmcp, nlpf)
}

/// Waveform rendered by the harness from the engine's own trajectories with the given
/// stage / log-gain / alpha (volume 0 dB only: the linear volume is not observable exactly).
pub fn render_with(engine: &Engine, lines: &[String], stage: usize, use_log_gain: bool, alpha: f64) -> Result<Vec<f64>, String> {
    let g = engine.generator(lines).map_err(|e| e.to_string())?;
    let tr = trajectories(&g);
    let (nmcp, nlpf) = stream_lengths(engine);
    let c = &engine.condition;
    let p = RenderParams {
        nmcp,
        nlpf,
        stage,
        use_log_gain,
        rate: c.get_sampling_frequency(),
        alpha,
        beta: c.get_beta(),
        volume: 1.0,
        fperiod: c.get_fperiod(),
    };
    Ok(render(&p, &tr))
}

pub fn bits_equal(a: &[f64], b: &[f64]) -> Option<usize> {
    if a.len() != b.len() {
        return Some(a.len().min(b.len()));
    }
    (0..a.len()).find(|&i| a[i].to_bits() != b[i].to_bits() && !(a[i].is_nan() && b[i].is_nan()))
}
