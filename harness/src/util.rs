//! Panic capture, hashing, scratch directory.

use std::cell::RefCell;
use std::hash::{Hash, Hasher};
use std::panic::{catch_unwind, AssertUnwindSafe};
use std::path::PathBuf;
use std::sync::Once;

#[derive(Debug, Clone)]
pub struct PanicRec {
    pub msg: String,
    pub file: String,
    pub line: u32,
}

impl PanicRec {
    /// Signature stable under refactoring: crate-relative file, message with numbers blanked.
    pub fn signature(&self) -> String {
        let file = norm_path(&self.file);
        let mut msg = String::new();
        let mut last_hash = false;
        for ch in self.msg.chars().take(120) {
            if ch.is_ascii_digit() {
                if !last_hash {
                    msg.push('#');
                }
                last_hash = true;
            } else {
                msg.push(ch);
                last_hash = false;
            }
        }
        format!("panic@{}: {}", file, msg)
    }
    pub fn in_harness(&self) -> bool {
        self.file.contains("verif/harness") || self.file.starts_with("src/")
    }
}

fn norm_path(p: &str) -> String {
    if let Some(i) = p.find("/registry/src/") {
        let rest = &p[i + "/registry/src/".len()..];
        if let Some(j) = rest.find('/') {
            return rest[j + 1..].to_string();
        }
    }
    if let Some(i) = p.rfind("/src/") {
        // crate dir name + relative path
        let head = &p[..i];
        let krate = head.rsplit('/').next().unwrap_or("");
        let krate = if krate == "repo" || krate.is_empty() || krate.starts_with("jb-") {
            "jbonsai"
        } else {
            krate
        };
        return format!("{}{}", krate, &p[i..]);
    }
    p.to_string()
}

thread_local! {
    static LAST_PANIC: RefCell<Option<PanicRec>> = const { RefCell::new(None) };
}

static HOOK: Once = Once::new();

pub fn install_panic_hook() {
    HOOK.call_once(|| {
        std::panic::set_hook(Box::new(|info| {
            let msg = if let Some(s) = info.payload().downcast_ref::<&str>() {
                s.to_string()
            } else if let Some(s) = info.payload().downcast_ref::<String>() {
                s.clone()
            } else {
                "<non-string panic payload>".to_string()
            };
            let (file, line) = info
                .location()
                .map(|l| (l.file().to_string(), l.line()))
                .unwrap_or_default();
            if std::env::var("VERIF_DEBUG_PANICS").is_ok() || file.contains("harness/src") || file.starts_with("src/") {
                eprintln!("[panic] {}:{}: {}", file, line, msg);
            }
            LAST_PANIC.with(|c| *c.borrow_mut() = Some(PanicRec { msg, file, line }));
        }));
    });
}

/// Run `f`, converting a panic into `Err(PanicRec)`.
pub fn catch<T>(f: impl FnOnce() -> T) -> Result<T, PanicRec> {
    install_panic_hook();
    LAST_PANIC.with(|c| *c.borrow_mut() = None);
    match catch_unwind(AssertUnwindSafe(f)) {
        Ok(v) => Ok(v),
        Err(_) => Err(LAST_PANIC.with(|c| c.borrow_mut().take()).unwrap_or(PanicRec {
            msg: "<unknown panic>".into(),
            file: String::new(),
            line: 0,
        })),
    }
}

pub fn hash64<T: Hash + ?Sized>(t: &T) -> u64 {
    // DefaultHasher::new() uses fixed keys: deterministic across runs.
    let mut h = std::collections::hash_map::DefaultHasher::new();
    t.hash(&mut h);
    h.finish()
}

pub fn hash_json<T: serde::Serialize>(t: &T) -> u64 {
    match serde_json::to_vec(t) {
        Ok(v) => hash64(&v),
        Err(_) => 0,
    }
}

/// Run-private scratch directory (removed by `cleanup_scratch`).
pub fn scratch_dir() -> PathBuf {
    static DIR: std::sync::OnceLock<PathBuf> = std::sync::OnceLock::new();
    DIR.get_or_init(|| {
        let base = if std::path::Path::new("/dev/shm").is_dir() {
            PathBuf::from("/dev/shm")
        } else {
            PathBuf::from("/verif/target/tmp")
        };
        let d = base.join(format!("jbverif-{}", std::process::id()));
        let _ = std::fs::create_dir_all(&d);
        d
    })
    .clone()
}

pub fn cleanup_scratch() {
    let d = scratch_dir();
    let _ = std::fs::remove_dir_all(d);
}

pub fn repo_dir() -> PathBuf {
    PathBuf::from(std::env::var("VERIF_REPO").unwrap_or_else(|_| "/repo".to_string()))
}

pub fn verif_dir() -> PathBuf {
    PathBuf::from(std::env::var("VERIF_DIR").unwrap_or_else(|_| "/verif".to_string()))
}

/// Relative comparison helper: |a-b| <= tol * max(1, |a|, |b|).
pub fn close(a: f64, b: f64, tol: f64) -> bool {
    if a == b {
        return true;
    }
    if !a.is_finite() || !b.is_finite() {
        return false;
    }
    (a - b).abs() <= tol * 1f64.max(a.abs()).max(b.abs())
}

/// Pure relative comparison: |a-b| <= tol * max(|a|,|b|) (+ tiny absolute floor).
pub fn close_rel(a: f64, b: f64, tol: f64) -> bool {
    if a == b {
        return true;
    }
    if !a.is_finite() || !b.is_finite() {
        return false;
    }
    (a - b).abs() <= tol * a.abs().max(b.abs()) + 1e-300
}
