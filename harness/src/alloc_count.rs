//! Counting allocator (installed by the `check` binary): per-thread live bytes and peak, so
//! that C18 can bound the heap used while loading a (malformed) voice file.
//!
//! It also OWNS THE ALIGNMENT of medium-sized buffers (16 KiB .. 1 MiB, requested alignment <= 16):
//! they are always carved out of a 32-byte aligned block at offset 0 or 16, chosen by a per-thread
//! switch (`set_alignment_salt`). With the switch at its default every such buffer is 32-byte
//! aligned in every thread; C03 flips it to show that results do not depend on where the allocator
//! happens to place a trajectory (a check that is otherwise at the mercy of the heap layout).

use std::alloc::{GlobalAlloc, Layout, System};
use std::cell::Cell;
use std::sync::atomic::{AtomicBool, AtomicUsize, Ordering};

pub struct Counting;

thread_local! {
    static CUR: Cell<isize> = const { Cell::new(0) };
    static PEAK: Cell<isize> = const { Cell::new(0) };
}

thread_local! {
    static SALT: Cell<usize> = const { Cell::new(0) };
}

const SALTED_MIN: usize = 16 << 10;
const SALTED_MAX: usize = 1 << 20;

#[inline]
fn salted(l: &Layout) -> bool {
    l.align() <= 16 && l.size() >= SALTED_MIN && l.size() <= SALTED_MAX
}

#[inline]
fn outer(l: &Layout) -> Layout {
    // size + 32 never overflows for the salted class
    unsafe { Layout::from_size_align_unchecked(l.size() + 32, 32) }
}

/// 0 or 16: offset (modulo 32) of the medium-sized buffers allocated by this thread from now on.
pub fn set_alignment_salt(offset16: bool) {
    let _ = SALT.try_with(|s| s.set(if offset16 { 16 } else { 0 }));
}

pub static INSTALLED: AtomicBool = AtomicBool::new(false);
/// Largest single allocation request seen (bytes).
pub static LARGEST_REQUEST: AtomicUsize = AtomicUsize::new(0);

#[inline]
fn add(n: isize) {
    let _ = CUR.try_with(|c| {
        let v = c.get() + n;
        c.set(v);
        let _ = PEAK.try_with(|p| {
            if v > p.get() {
                p.set(v);
            }
        });
    });
}

unsafe impl GlobalAlloc for Counting {
    unsafe fn alloc(&self, l: Layout) -> *mut u8 {
        INSTALLED.store(true, Ordering::Relaxed);
        if l.size() > LARGEST_REQUEST.load(Ordering::Relaxed) {
            LARGEST_REQUEST.fetch_max(l.size(), Ordering::Relaxed);
        }
        let p = if salted(&l) {
            let base = System.alloc(outer(&l));
            if base.is_null() {
                base
            } else {
                base.add(SALT.try_with(|s| s.get()).unwrap_or(0))
            }
        } else {
            System.alloc(l)
        };
        if !p.is_null() {
            add(l.size() as isize);
        }
        p
    }
    unsafe fn dealloc(&self, p: *mut u8, l: Layout) {
        if salted(&l) {
            // the block is 32-byte aligned and the offset is 0 or 16
            let base = ((p as usize) & !31usize) as *mut u8;
            System.dealloc(base, outer(&l));
        } else {
            System.dealloc(p, l);
        }
        add(-(l.size() as isize));
    }
    unsafe fn realloc(&self, p: *mut u8, l: Layout, new: usize) -> *mut u8 {
        if new > LARGEST_REQUEST.load(Ordering::Relaxed) {
            LARGEST_REQUEST.fetch_max(new, Ordering::Relaxed);
        }
        let new_layout = Layout::from_size_align_unchecked(new, l.align());
        if salted(&l) || salted(&new_layout) {
            // moving between (or inside) the salted class: allocate, copy, free
            let q = self.alloc(new_layout);
            if !q.is_null() {
                std::ptr::copy_nonoverlapping(p, q, l.size().min(new));
                self.dealloc(p, l);
            }
            return q;
        }
        let q = System.realloc(p, l, new);
        if !q.is_null() {
            add(new as isize - l.size() as isize);
        }
        q
    }
}

/// Start a measurement on this thread: peak := current.
pub fn reset_thread_peak() -> isize {
    let cur = CUR.with(|c| c.get());
    PEAK.with(|p| p.set(cur));
    cur
}

/// Peak live bytes on this thread since `reset_thread_peak`, relative to `base`.
pub fn thread_peak_since(base: isize) -> usize {
    let p = PEAK.with(|p| p.get());
    (p - base).max(0) as usize
}

pub fn installed() -> bool {
    INSTALLED.load(Ordering::Relaxed)
}
