//! Counting allocator (installed by the `check` binary): per-thread live bytes and peak, so
//! that C18 can bound the heap used while loading a (malformed) voice file.

use std::alloc::{GlobalAlloc, Layout, System};
use std::cell::Cell;
use std::sync::atomic::{AtomicBool, AtomicUsize, Ordering};

pub struct Counting;

thread_local! {
    static CUR: Cell<isize> = const { Cell::new(0) };
    static PEAK: Cell<isize> = const { Cell::new(0) };
}

pub static INSTALLED: AtomicBool = AtomicBool::new(false);
/// Largest single allocation request seen (bytes).
pub static LARGEST_REQUEST: AtomicUsize = AtomicUsize::new(0);

#[inline]
fn add(n: isize) {
    let _ = CUR.try_with(|c| {
        let v = c.get() + n;
        c.set(v);
        let _ = PEAK.try_with(|p| {
            if v > p.get() {
                p.set(v);
            }
        });
    });
}

unsafe impl GlobalAlloc for Counting {
    unsafe fn alloc(&self, l: Layout) -> *mut u8 {
        INSTALLED.store(true, Ordering::Relaxed);
        if l.size() > LARGEST_REQUEST.load(Ordering::Relaxed) {
            LARGEST_REQUEST.fetch_max(l.size(), Ordering::Relaxed);
        }
        let p = System.alloc(l);
        if !p.is_null() {
            add(l.size() as isize);
        }
        p
    }
    unsafe fn dealloc(&self, p: *mut u8, l: Layout) {
        System.dealloc(p, l);
        add(-(l.size() as isize));
    }
    unsafe fn realloc(&self, p: *mut u8, l: Layout, new: usize) -> *mut u8 {
        if new > LARGEST_REQUEST.load(Ordering::Relaxed) {
            LARGEST_REQUEST.fetch_max(new, Ordering::Relaxed);
        }
        let q = System.realloc(p, l, new);
        if !q.is_null() {
            add(new as isize - l.size() as isize);
        }
        q
    }
}

/// Start a measurement on this thread: peak := current.
pub fn reset_thread_peak() -> isize {
    let cur = CUR.with(|c| c.get());
    PEAK.with(|p| p.set(cur));
    cur
}

/// Peak live bytes on this thread since `reset_thread_peak`, relative to `base`.
pub fn thread_peak_since(base: isize) -> usize {
    let p = PEAK.with(|p| p.get());
    (p - base).max(0) as usize
}

pub fn installed() -> bool {
    INSTALLED.load(Ordering::Relaxed)
}
