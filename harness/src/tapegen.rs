//! proptest `Strategy` producing fixed-length choice tapes with a delta-debugging style shrinker:
//! zero out blocks (halving block size, from the tail towards the head), then halve single
//! elements. A zeroed tape element decodes to the simplest choice.

use proptest::prelude::RngCore;
use proptest::strategy::{NewTree, Strategy, ValueTree};
use proptest::test_runner::TestRunner;

#[derive(Debug, Clone)]
pub struct TapeStrategy {
    pub len: usize,
}

impl Strategy for TapeStrategy {
    type Tree = TapeTree;
    type Value = Vec<u32>;
    fn new_tree(&self, runner: &mut TestRunner) -> NewTree<Self> {
        let rng = runner.rng();
        let v: Vec<u32> = (0..self.len).map(|_| rng.next_u32()).collect();
        Ok(TapeTree::new(v))
    }
}

#[derive(Debug, Clone)]
enum Phase {
    /// Zero blocks of `bs` elements; `next_end` is the exclusive end of the next block to try.
    Blocks { bs: usize, next_end: usize },
    /// Halve single elements.
    Halve { idx: usize },
    Done,
}

#[derive(Debug, Clone)]
pub struct TapeTree {
    cur: Vec<u32>,
    cand: Vec<u32>,
    phase: Phase,
}

impl TapeTree {
    pub fn new(v: Vec<u32>) -> Self {
        let n = v.len();
        Self {
            cand: v.clone(),
            cur: v,
            phase: if n == 0 {
                Phase::Done
            } else {
                Phase::Blocks {
                    bs: n.div_ceil(2).max(1),
                    next_end: n,
                }
            },
        }
    }

    /// Produce the next candidate from `cur`. Returns false when no candidates remain.
    fn propose(&mut self) -> bool {
        loop {
            match self.phase.clone() {
                Phase::Blocks { bs, next_end } => {
                    if next_end == 0 {
                        self.phase = if bs <= 1 {
                            Phase::Halve { idx: 0 }
                        } else {
                            Phase::Blocks {
                                bs: bs.div_ceil(2),
                                next_end: self.cur.len(),
                            }
                        };
                        continue;
                    }
                    let start = next_end.saturating_sub(bs);
                    self.phase = Phase::Blocks { bs, next_end: start };
                    if self.cur[start..next_end].iter().all(|x| *x == 0) {
                        continue;
                    }
                    self.cand = self.cur.clone();
                    self.cand[start..next_end].iter_mut().for_each(|x| *x = 0);
                    return true;
                }
                Phase::Halve { idx } => {
                    if idx >= self.cur.len() {
                        self.phase = Phase::Done;
                        continue;
                    }
                    if self.cur[idx] == 0 {
                        self.phase = Phase::Halve { idx: idx + 1 };
                        continue;
                    }
                    self.cand = self.cur.clone();
                    self.cand[idx] /= 2;
                    // stay on idx: if accepted we try halving again, if rejected `complicate`
                    // advances.
                    return true;
                }
                Phase::Done => {
                    self.cand = self.cur.clone();
                    return false;
                }
            }
        }
    }
}

impl ValueTree for TapeTree {
    type Value = Vec<u32>;
    fn current(&self) -> Vec<u32> {
        self.cand.clone()
    }
    /// The current candidate failed the test: accept it and propose something simpler.
    fn simplify(&mut self) -> bool {
        self.cur = self.cand.clone();
        self.propose()
    }
    /// The current candidate passed the test: drop it and propose the next one.
    fn complicate(&mut self) -> bool {
        if let Phase::Halve { idx } = self.phase {
            // halving element idx did not keep the failure; move on
            self.phase = Phase::Halve { idx: idx + 1 };
        }
        self.cand = self.cur.clone();
        self.propose()
    }
}

#[cfg(test)]
mod tests {
    use super::*;
    use proptest::test_runner::{Config, RngSeed, TestCaseError, TestError};

    #[test]
    fn shrinks_to_minimal() {
        let mut runner = TestRunner::new(Config {
            cases: 100,
            failure_persistence: None,
            rng_seed: RngSeed::Fixed(1),
            max_shrink_iters: 2000,
            ..Config::default()
        });
        let r = runner.run(&TapeStrategy { len: 100 }, |t| {
            if t[17] > 1000 && t[60] > 5 {
                Err(TestCaseError::fail("x"))
            } else {
                Ok(())
            }
        });
        match r {
            Err(TestError::Fail(_, t)) => {
                assert!(t[17] > 1000 && t[17] < 2002, "{}", t[17]);
                assert!(t[60] > 5 && t[60] < 12);
                assert_eq!(t.iter().filter(|x| **x != 0).count(), 2);
            }
            _ => panic!("expected failure"),
        }
    }
}
