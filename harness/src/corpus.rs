//! Label corpus (examples/genji/genji.lab, 1456 real Open JTalk lines) and label generators.

use std::sync::OnceLock;

use jlabel::{
    AccentPhraseCurrent, AccentPhrasePrevNext, BreathGroupCurrent, BreathGroupPrevNext, Label,
    Mora, Phoneme, Utterance, Word,
};

use crate::tape::Tape;
use crate::util::repo_dir;

pub struct Corpus {
    pub lines: Vec<String>,
    pub labels: Vec<Label>,
    // per-slot pools (values observed in the corpus)
    phonemes: Vec<Option<String>>,
    mora: (Vec<i8>, Vec<u8>, Vec<u8>, u32),
    word_slots: (Vec<Option<u8>>, Vec<Option<u8>>, Vec<Option<u8>>),
    word_presence: [u32; 3],
    ap_prevnext: (Vec<u8>, Vec<u8>, Vec<bool>, Vec<Option<bool>>),
    ap_presence: [u32; 2],
    ap_curr: [Vec<u8>; 6],
    ap_curr_interrogative: Vec<bool>,
    ap_curr_presence: u32,
    bg_prevnext: (Vec<u8>, Vec<u8>),
    bg_presence: [u32; 2],
    bg_curr: [Vec<u8>; 8],
    bg_curr_presence: u32,
    utt: (Vec<u8>, Vec<u8>, Vec<u8>),
}

fn push_uniq<T: PartialEq + Clone>(v: &mut Vec<T>, x: &T) {
    if !v.contains(x) {
        v.push(x.clone());
    }
}

pub fn corpus() -> &'static Corpus {
    static C: OnceLock<Corpus> = OnceLock::new();
    C.get_or_init(|| {
        let path = repo_dir().join("examples/genji/genji.lab");
        let text = std::fs::read_to_string(&path).expect("examples/genji/genji.lab must be readable");
        let lines: Vec<String> = text.lines().filter(|l| !l.is_empty()).map(|l| l.to_string()).collect();
        let labels: Vec<Label> = lines
            .iter()
            .map(|l| l.parse().expect("corpus line must parse with jlabel"))
            .collect();
        let mut c = Corpus {
            lines,
            labels: vec![],
            phonemes: vec![],
            mora: (vec![], vec![], vec![], 0),
            word_slots: (vec![], vec![], vec![]),
            word_presence: [0; 3],
            ap_prevnext: (vec![], vec![], vec![], vec![]),
            ap_presence: [0; 2],
            ap_curr: Default::default(),
            ap_curr_interrogative: vec![],
            ap_curr_presence: 0,
            bg_prevnext: (vec![], vec![]),
            bg_presence: [0; 2],
            bg_curr: Default::default(),
            bg_curr_presence: 0,
            utt: (vec![], vec![], vec![]),
        };
        for l in &labels {
            for p in [&l.phoneme.p2, &l.phoneme.p1, &l.phoneme.c, &l.phoneme.n1, &l.phoneme.n2] {
                push_uniq(&mut c.phonemes, p);
            }
            if let Some(m) = &l.mora {
                c.mora.3 += 1;
                push_uniq(&mut c.mora.0, &m.relative_accent_position);
                push_uniq(&mut c.mora.1, &m.position_forward);
                push_uniq(&mut c.mora.2, &m.position_backward);
            }
            for (i, w) in [&l.word_prev, &l.word_curr, &l.word_next].into_iter().enumerate() {
                if let Some(w) = w {
                    c.word_presence[i] += 1;
                    push_uniq(&mut c.word_slots.0, &w.pos);
                    push_uniq(&mut c.word_slots.1, &w.ctype);
                    push_uniq(&mut c.word_slots.2, &w.cform);
                }
            }
            for (i, a) in [&l.accent_phrase_prev, &l.accent_phrase_next].into_iter().enumerate() {
                if let Some(a) = a {
                    c.ap_presence[i] += 1;
                    push_uniq(&mut c.ap_prevnext.0, &a.mora_count);
                    push_uniq(&mut c.ap_prevnext.1, &a.accent_position);
                    push_uniq(&mut c.ap_prevnext.2, &a.is_interrogative);
                    push_uniq(&mut c.ap_prevnext.3, &a.is_pause_insertion);
                }
            }
            if let Some(a) = &l.accent_phrase_curr {
                c.ap_curr_presence += 1;
                push_uniq(&mut c.ap_curr[0], &a.mora_count);
                push_uniq(&mut c.ap_curr[1], &a.accent_position);
                push_uniq(&mut c.ap_curr_interrogative, &a.is_interrogative);
                push_uniq(&mut c.ap_curr[2], &a.accent_phrase_position_forward);
                push_uniq(&mut c.ap_curr[3], &a.accent_phrase_position_backward);
                push_uniq(&mut c.ap_curr[4], &a.mora_position_forward);
                push_uniq(&mut c.ap_curr[5], &a.mora_position_backward);
            }
            for (i, b) in [&l.breath_group_prev, &l.breath_group_next].into_iter().enumerate() {
                if let Some(b) = b {
                    c.bg_presence[i] += 1;
                    push_uniq(&mut c.bg_prevnext.0, &b.accent_phrase_count);
                    push_uniq(&mut c.bg_prevnext.1, &b.mora_count);
                }
            }
            if let Some(b) = &l.breath_group_curr {
                c.bg_curr_presence += 1;
                let vals = [
                    b.accent_phrase_count,
                    b.mora_count,
                    b.breath_group_position_forward,
                    b.breath_group_position_backward,
                    b.accent_phrase_position_forward,
                    b.accent_phrase_position_backward,
                    b.mora_position_forward,
                    b.mora_position_backward,
                ];
                for (k, v) in vals.iter().enumerate() {
                    push_uniq(&mut c.bg_curr[k], v);
                }
            }
            push_uniq(&mut c.utt.0, &l.utterance.breath_group_count);
            push_uniq(&mut c.utt.1, &l.utterance.accent_phrase_count);
            push_uniq(&mut c.utt.2, &l.utterance.mora_count);
        }
        // deterministic order of the pools: sorted, None / "xx" first
        c.phonemes.sort();
        c.mora.0.sort();
        c.mora.1.sort();
        c.mora.2.sort();
        c.word_slots.0.sort();
        c.word_slots.1.sort();
        c.word_slots.2.sort();
        c.ap_prevnext.0.sort();
        c.ap_prevnext.1.sort();
        c.ap_prevnext.2.sort();
        c.ap_prevnext.3.sort();
        for v in c.ap_curr.iter_mut() {
            v.sort();
        }
        c.ap_curr_interrogative.sort();
        c.bg_prevnext.0.sort();
        c.bg_prevnext.1.sort();
        for v in c.bg_curr.iter_mut() {
            v.sort();
        }
        c.utt.0.sort();
        c.utt.1.sort();
        c.utt.2.sort();
        c.labels = labels;
        c
    })
}

fn present(t: &mut Tape, count: u32, total: usize) -> bool {
    // presence probability = corpus frequency, kept inside [0.1, 0.9] so both outcomes occur
    let p = (count as f64 / total as f64).clamp(0.1, 0.9);
    t.chance(p)
}

/// A label recombined slot by slot from the values the corpus takes in that slot.
pub fn recombined_label(t: &mut Tape) -> Label {
    let c = corpus();
    let n = c.labels.len();
    let ph = |t: &mut Tape| t.pick(&c.phonemes).clone();
    let phoneme = Phoneme {
        p2: ph(t),
        p1: ph(t),
        c: ph(t),
        n1: ph(t),
        n2: ph(t),
    };
    let mora = if present(t, c.mora.3, n) {
        Some(Mora {
            relative_accent_position: *t.pick(&c.mora.0),
            position_forward: *t.pick(&c.mora.1),
            position_backward: *t.pick(&c.mora.2),
        })
    } else {
        None
    };
    let word = |t: &mut Tape, i: usize| {
        if present(t, c.word_presence[i], n) {
            let w = Word {
                pos: *t.pick(&c.word_slots.0),
                ctype: *t.pick(&c.word_slots.1),
                cform: *t.pick(&c.word_slots.2),
            };
            // an all-xx word is written exactly like an absent one
            if w.pos.is_none() && w.ctype.is_none() && w.cform.is_none() {
                None
            } else {
                Some(w)
            }
        } else {
            None
        }
    };
    let word_prev = word(t, 0);
    let word_curr = word(t, 1);
    let word_next = word(t, 2);
    let appn = |t: &mut Tape, i: usize| {
        if present(t, c.ap_presence[i], n) {
            Some(AccentPhrasePrevNext {
                mora_count: *t.pick(&c.ap_prevnext.0),
                accent_position: *t.pick(&c.ap_prevnext.1),
                is_interrogative: *t.pick(&c.ap_prevnext.2),
                is_pause_insertion: *t.pick(&c.ap_prevnext.3),
            })
        } else {
            None
        }
    };
    let accent_phrase_prev = appn(t, 0);
    let accent_phrase_curr = if present(t, c.ap_curr_presence, n) {
        Some(AccentPhraseCurrent {
            mora_count: *t.pick(&c.ap_curr[0]),
            accent_position: *t.pick(&c.ap_curr[1]),
            is_interrogative: *t.pick(&c.ap_curr_interrogative),
            accent_phrase_position_forward: *t.pick(&c.ap_curr[2]),
            accent_phrase_position_backward: *t.pick(&c.ap_curr[3]),
            mora_position_forward: *t.pick(&c.ap_curr[4]),
            mora_position_backward: *t.pick(&c.ap_curr[5]),
        })
    } else {
        None
    };
    let accent_phrase_next = appn(t, 1);
    let bgpn = |t: &mut Tape, i: usize| {
        if present(t, c.bg_presence[i], n) {
            Some(BreathGroupPrevNext {
                accent_phrase_count: *t.pick(&c.bg_prevnext.0),
                mora_count: *t.pick(&c.bg_prevnext.1),
            })
        } else {
            None
        }
    };
    let breath_group_prev = bgpn(t, 0);
    let breath_group_curr = if present(t, c.bg_curr_presence, n) {
        Some(BreathGroupCurrent {
            accent_phrase_count: *t.pick(&c.bg_curr[0]),
            mora_count: *t.pick(&c.bg_curr[1]),
            breath_group_position_forward: *t.pick(&c.bg_curr[2]),
            breath_group_position_backward: *t.pick(&c.bg_curr[3]),
            accent_phrase_position_forward: *t.pick(&c.bg_curr[4]),
            accent_phrase_position_backward: *t.pick(&c.bg_curr[5]),
            mora_position_forward: *t.pick(&c.bg_curr[6]),
            mora_position_backward: *t.pick(&c.bg_curr[7]),
        })
    } else {
        None
    };
    let breath_group_next = bgpn(t, 1);
    let utterance = Utterance {
        breath_group_count: *t.pick(&c.utt.0),
        accent_phrase_count: *t.pick(&c.utt.1),
        mora_count: *t.pick(&c.utt.2),
    };
    Label {
        phoneme,
        mora,
        word_prev,
        word_curr,
        word_next,
        accent_phrase_prev,
        accent_phrase_curr,
        accent_phrase_next,
        breath_group_prev,
        breath_group_curr,
        breath_group_next,
        utterance,
    }
}

/// Structurally random label (only for "no panic" clauses): arbitrary numbers, random phoneme
/// strings (printable ASCII without the characters that delimit the phoneme fields).
pub fn random_label(t: &mut Tape) -> Label {
    fn ph(t: &mut Tape) -> Option<String> {
        if t.chance(0.2) {
            return None;
        }
        const ALPHA: &[u8] = b"abcdefghijklmnopqrstuvwxyzABCDEFGHIJKLMNOPQRSTUVWXYZ0123456789_?*";
        let n = t.urange(1, 4);
        Some((0..n).map(|_| *t.pick(ALPHA) as char).collect())
    }
    fn u(t: &mut Tape) -> u8 {
        match t.below(4) {
            0 => *t.pick(&[1u8, 0, 2, 9, 10, 99, 100, 199, 200, 255]),
            _ => t.below(256) as u8,
        }
    }
    fn ou(t: &mut Tape) -> Option<u8> {
        if t.chance(0.3) {
            None
        } else {
            Some(u(t))
        }
    }
    fn b(t: &mut Tape) -> bool {
        t.chance(0.5)
    }
    let phoneme = Phoneme {
        p2: ph(t),
        p1: ph(t),
        c: ph(t),
        n1: ph(t),
        n2: ph(t),
    };
    let mora = if b(t) {
        Some(Mora {
            relative_accent_position: t.range(-128, 127) as i8,
            position_forward: u(t),
            position_backward: u(t),
        })
    } else {
        None
    };
    let word = |t: &mut Tape| {
        if b(t) {
            Some(Word {
                pos: ou(t),
                ctype: ou(t),
                cform: ou(t),
            })
        } else {
            None
        }
    };
    let word_prev = word(t);
    let word_curr = word(t);
    let word_next = word(t);
    let appn = |t: &mut Tape| {
        if b(t) {
            Some(AccentPhrasePrevNext {
                mora_count: u(t),
                accent_position: u(t),
                is_interrogative: b(t),
                is_pause_insertion: if b(t) { Some(b(t)) } else { None },
            })
        } else {
            None
        }
    };
    let accent_phrase_prev = appn(t);
    let accent_phrase_curr = if b(t) {
        Some(AccentPhraseCurrent {
            mora_count: u(t),
            accent_position: u(t),
            is_interrogative: b(t),
            accent_phrase_position_forward: u(t),
            accent_phrase_position_backward: u(t),
            mora_position_forward: u(t),
            mora_position_backward: u(t),
        })
    } else {
        None
    };
    let accent_phrase_next = appn(t);
    let bgpn = |t: &mut Tape| {
        if b(t) {
            Some(BreathGroupPrevNext {
                accent_phrase_count: u(t),
                mora_count: u(t),
            })
        } else {
            None
        }
    };
    let breath_group_prev = bgpn(t);
    let breath_group_curr = if b(t) {
        Some(BreathGroupCurrent {
            accent_phrase_count: u(t),
            mora_count: u(t),
            breath_group_position_forward: u(t),
            breath_group_position_backward: u(t),
            accent_phrase_position_forward: u(t),
            accent_phrase_position_backward: u(t),
            mora_position_forward: u(t),
            mora_position_backward: u(t),
        })
    } else {
        None
    };
    let breath_group_next = bgpn(t);
    Label {
        phoneme,
        mora,
        word_prev,
        word_curr,
        word_next,
        accent_phrase_prev,
        accent_phrase_curr,
        accent_phrase_next,
        breath_group_prev,
        breath_group_curr,
        breath_group_next,
        utterance: Utterance {
            breath_group_count: u(t),
            accent_phrase_count: u(t),
            mora_count: u(t),
        },
    }
}

#[derive(Clone, Copy, PartialEq, Eq, Debug)]
pub enum Source {
    Consecutive,
    Shuffled,
    Recombined,
    Random,
    /// silence / pause labels only (boundary class: no GV-eligible frame, nothing voiced)
    Silence,
}

impl Source {
    pub fn name(self) -> &'static str {
        match self {
            Source::Consecutive => "consecutive",
            Source::Shuffled => "shuffled",
            Source::Recombined => "recombined",
            Source::Random => "random",
            Source::Silence => "silence-only",
        }
    }
}

/// `n` label lines from a generated source. `allow_random` adds the structurally random source.
pub fn gen_label_lines(t: &mut Tape, n: usize, allow_random: bool) -> (Vec<String>, Source) {
    let c = corpus();
    let src = match t.weighted(&[8, 4, 6, if allow_random { 4 } else { 0 }, 1]) {
        0 => Source::Consecutive,
        1 => Source::Shuffled,
        2 => Source::Recombined,
        3 => Source::Random,
        _ => Source::Silence,
    };
    let lines = match src {
        Source::Consecutive => {
            let n = n.min(c.lines.len());
            let s = t.below(c.lines.len() - n + 1);
            c.lines[s..s + n].to_vec()
        }
        Source::Shuffled => (0..n).map(|_| t.pick(&c.lines).clone()).collect(),
        Source::Recombined => (0..n).map(|_| recombined_label(t).to_string()).collect(),
        Source::Random => (0..n).map(|_| random_label(t).to_string()).collect(),
        Source::Silence => {
            static SIL: OnceLock<Vec<String>> = OnceLock::new();
            let sil = SIL.get_or_init(|| {
                c.lines.iter().filter(|l| l.contains("-sil+") || l.contains("-pau+")).cloned().collect()
            });
            (0..n.min(6)).map(|_| t.pick(sil).clone()).collect()
        }
    };
    let mut lines = lines;
    // 12 %: two labels of the utterance agree in everything but one or two field groups (the
    // second is a copy of the first with the groups of another corpus line spliced in) - a pair
    // that any lookup keyed by only a part of the label confuses
    if lines.len() >= 2 && !matches!(src, Source::Random | Source::Silence) && t.chance(0.12) {
        let i = t.below(lines.len());
        let mut j = t.below(lines.len() - 1);
        if j >= i {
            j += 1;
        }
        let donor = t.pick(&c.lines).clone();
        let k = t.urange(1, 2);
        let groups: Vec<usize> = (0..k).map(|_| t.below(12)).collect();
        if let Some(l) = splice_groups(&lines[i], &donor, &groups) {
            if l.parse::<Label>().is_ok() {
                lines[j] = l;
            }
        }
    }
    (lines, src)
}

/// `a` with the field groups `groups` (0 = phoneme quintuple, 1..=10 = /A: .. /K:) taken from `donor`.
fn splice_groups(a: &str, donor: &str, groups: &[usize]) -> Option<String> {
    const MARKS: [&str; 10] = ["/A:", "/B:", "/C:", "/D:", "/E:", "/F:", "/G:", "/H:", "/I:", "/J:"];
    let cut = |s: &str| -> Option<Vec<String>> {
        let mut pos = vec![0usize];
        for m in MARKS.iter().chain(std::iter::once(&"/K:")) {
            pos.push(s.find(m)?);
        }
        pos.push(s.len());
        if pos.windows(2).any(|w| w[0] > w[1]) {
            return None;
        }
        Some(pos.windows(2).map(|w| s[w[0]..w[1]].to_string()).collect())
    };
    let mut sa = cut(a)?;
    let sd = cut(donor)?;
    for g in groups {
        sa[*g] = sd[*g].clone();
    }
    Some(sa.concat())
}

pub fn parse_lines(lines: &[String]) -> Result<Vec<Label>, String> {
    lines
        .iter()
        .map(|l| l.parse::<Label>().map_err(|e| format!("{}: {}", l, e)))
        .collect()
}
