//! `check <ID> [--tier quick|thorough] [--replay FILE]`
//! exit 0: property held on everything explored; 1: VIOLATION printed; 2: inconclusive.

use jbverif::props;
use jbverif::runner::{Session, Tier};

#[global_allocator]
static ALLOC: jbverif::alloc_count::Counting = jbverif::alloc_count::Counting;

fn usage() -> ! {
    eprintln!("usage: check <ID>|list [--tier quick|thorough] [--replay FILE]");
    std::process::exit(2)
}

fn main() {
    let args: Vec<String> = std::env::args().skip(1).collect();
    if args.is_empty() {
        usage();
    }
    if args[0] == "gen-corpus" {
        // seed inputs for the libFuzzer targets (deterministic)
        let dir = std::path::PathBuf::from(args.get(1).cloned().unwrap_or_else(|| "/verif/corpus".into()));
        jbverif::fuzz_support::write_seed_corpus(&dir);
        return;
    }
    if args[0] == "list" {
        for d in props::all() {
            println!("{}", d.id);
        }
        return;
    }
    let id = args[0].clone();
    let mut tier = match std::env::var("VERIF_TIER").ok().as_deref() {
        Some("thorough") => Tier::Thorough,
        _ => Tier::Quick,
    };
    let mut replay: Option<String> = None;
    let mut replay_bytes: Option<String> = None;
    let mut i = 1;
    while i < args.len() {
        match args[i].as_str() {
            "--tier" => {
                i += 1;
                tier = match args.get(i).map(|s| s.as_str()) {
                    Some("quick") => Tier::Quick,
                    Some("thorough") => Tier::Thorough,
                    _ => usage(),
                };
            }
            "--replay" => {
                i += 1;
                replay = Some(args.get(i).cloned().unwrap_or_else(|| usage()));
            }
            "--fuzz-artifact" => {
                // --fuzz-artifact <sub-check> <file>: replay a libFuzzer input of a tape target
                let sub = args.get(i + 1).cloned().unwrap_or_else(|| usage());
                let file = args.get(i + 2).cloned().unwrap_or_else(|| usage());
                let data = std::fs::read(&file).expect("artifact readable");
                let tape = jbverif::tape::bytes_to_tape(&data);
                let def = props::find(&id).unwrap_or_else(|| usage());
                let list = (def.props)(Tier::Quick);
                let p = list.iter().find(|p| p.name() == sub).unwrap_or_else(|| usage());
                let mut s = Session::new(def.id, Tier::Quick, 0, def.level);
                let ok = s.replay_tape(p.as_ref(), &tape, Tier::Quick);
                jbverif::util::cleanup_scratch();
                std::process::exit(if ok { 0 } else { 1 });
            }
            "--fresh-digests" => {
                // child of C03's history-independence check
                let file = args.get(i + 1).cloned().unwrap_or_else(|| usage());
                let tapes: Vec<Vec<u32>> = serde_json::from_str(&std::fs::read_to_string(&file).expect("tape file")).expect("tape json");
                for l in jbverif::props::c03::fresh_digests(&tapes) {
                    println!("{}", l);
                }
                jbverif::util::cleanup_scratch();
                return;
            }
            "--replay-bytes" => {
                i += 1;
                replay_bytes = Some(args.get(i).cloned().unwrap_or_else(|| usage()));
            }
            _ => usage(),
        }
        i += 1;
    }
    let seed: u64 = std::env::var("VERIF_SEED")
        .ok()
        .and_then(|s| s.trim().parse::<i64>().ok())
        .map(|v| v as u64)
        .unwrap_or(0);
    let Some(def) = props::find(&id) else {
        eprintln!("unknown property {}", id);
        std::process::exit(2);
    };

    // watchdog: a stuck harness is "inconclusive", never a violation
    let limit_s: u64 = std::env::var("VERIF_WALL_LIMIT_S")
        .ok()
        .and_then(|s| s.parse().ok())
        .unwrap_or(match tier {
            Tier::Quick => 1500,
            Tier::Thorough => 6 * 3600,
        });
    std::thread::spawn(move || {
        std::thread::sleep(std::time::Duration::from_secs(limit_s));
        eprintln!("INCONCLUSIVE: wall-clock limit of {} s reached", limit_s);
        jbverif::util::cleanup_scratch();
        std::process::exit(2);
    });

    if let Some(file) = replay_bytes {
        // isolated single load (C18): exit 0 = returned Ok/Err, 1 = violation
        let mut s = Session::new(def.id, tier, seed, def.level);
        let ok = (def.replay_custom)(&mut s, &serde_json::json!({ "kind": "bytes-file", "path": file }));
        jbverif::util::cleanup_scratch();
        std::process::exit(if ok && s.violations.is_empty() { 0 } else { 1 });
    }
    if id == "C18" && replay.is_none() && std::env::var("VERIF_C18_CHILD").is_err() {
        let code = jbverif::isolate::run_isolated(&id, tier, seed);
        jbverif::util::cleanup_scratch();
        std::process::exit(code);
    }
    if std::env::var("VERIF_C18_CHILD").is_ok() {
        jbverif::isolate::start_hang_monitor();
    }
    let code = jbverif::props::run_property(&def, tier, seed, replay.as_deref());
    jbverif::util::cleanup_scratch();
    std::process::exit(code);
}

#[allow(dead_code)]
fn _unused(_: Session) {}
