//! The bundled voice (read from the repository at run time).

use std::path::PathBuf;
use std::sync::OnceLock;

use jbonsai::Engine;

use crate::util::repo_dir;

pub fn bundled_path() -> PathBuf {
    repo_dir().join("models/hts_voice_nitech_jp_atr503_m001-1.05/nitech_jp_atr503_m001.htsvoice")
}

pub fn bundled_bytes() -> &'static [u8] {
    static B: OnceLock<Vec<u8>> = OnceLock::new();
    B.get_or_init(|| std::fs::read(bundled_path()).expect("bundled voice must be readable"))
}

/// Bundled engine; `Err` carries the reason when the current tree cannot load it.
pub fn bundled_engine() -> Result<&'static Engine, String> {
    static E: OnceLock<Result<Engine, String>> = OnceLock::new();
    E.get_or_init(|| {
        match crate::util::catch(|| Engine::load(&[bundled_path()])) {
            Ok(Ok(e)) => Ok(e),
            Ok(Err(e)) => Err(format!("Engine::load(bundled) failed: {}", e)),
            Err(p) => Err(format!("Engine::load(bundled) panicked: {}", p.msg)),
        }
    })
    .as_ref()
    .map_err(|e| e.clone())
}
