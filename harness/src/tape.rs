//! Choice tape: every generated case is decoded from a `Vec<u32>` produced by proptest
//! (or by libFuzzer bytes). All-zero / exhausted tape decodes to the simplest case, and every
//! decoder maps raw values monotonically so that proptest's shrinking (towards 0, towards
//! shorter vectors) moves towards simpler cases.

pub struct Tape<'a> {
    data: &'a [u32],
    pos: usize,
    pub overrun: usize,
}

impl<'a> Tape<'a> {
    pub fn new(data: &'a [u32]) -> Self {
        Self {
            data,
            pos: 0,
            overrun: 0,
        }
    }

    pub fn consumed(&self) -> usize {
        self.pos
    }

    pub fn raw(&mut self) -> u32 {
        let v = match self.data.get(self.pos) {
            Some(v) => *v,
            None => {
                self.overrun += 1;
                0
            }
        };
        self.pos += 1;
        v
    }

    /// Uniform in `0..n` (monotone in the raw value; 0 -> 0).
    pub fn below(&mut self, n: usize) -> usize {
        let r = self.raw() as u64;
        if n <= 1 {
            return 0;
        }
        ((r * n as u64) >> 32) as usize
    }

    /// Inclusive integer range.
    pub fn range(&mut self, lo: i64, hi: i64) -> i64 {
        debug_assert!(lo <= hi);
        lo + self.below((hi - lo + 1) as usize) as i64
    }

    pub fn urange(&mut self, lo: usize, hi: usize) -> usize {
        lo + self.below(hi - lo + 1)
    }

    /// Uniform in [0,1).
    pub fn unit(&mut self) -> f64 {
        self.raw() as f64 / 4294967296.0
    }

    pub fn uniform(&mut self, lo: f64, hi: f64) -> f64 {
        lo + (hi - lo) * self.unit()
    }

    pub fn log_uniform(&mut self, lo: f64, hi: f64) -> f64 {
        (lo.ln() + (hi.ln() - lo.ln()) * self.unit()).exp()
    }

    /// `true` with probability p; raw 0 -> false.
    pub fn chance(&mut self, p: f64) -> bool {
        self.unit() >= 1.0 - p
    }

    pub fn pick<'b, T>(&mut self, xs: &'b [T]) -> &'b T {
        &xs[self.below(xs.len())]
    }

    /// Index drawn according to integer weights; raw 0 -> first index with non-zero weight.
    pub fn weighted(&mut self, w: &[u32]) -> usize {
        let total: u64 = w.iter().map(|x| *x as u64).sum();
        let mut r = (self.raw() as u64 * total) >> 32;
        for (i, x) in w.iter().enumerate() {
            if r < *x as u64 {
                return i;
            }
            r -= *x as u64;
        }
        w.len() - 1
    }

    /// Approximately standard normal (sum of 4 uniforms, exact variance 1); raw 0 -> 0.
    pub fn gauss(&mut self) -> f64 {
        let mut s = 0.0;
        for _ in 0..4 {
            let r = self.raw() ^ 0x8000_0000;
            s += r as f64 / 4294967296.0;
        }
        (s - 2.0) * 3f64.sqrt()
    }

    /// Dyadic rational k/den in [lo,hi] (exactly representable).
    pub fn dyadic(&mut self, lo: i64, hi: i64, den: i64) -> f64 {
        self.range(lo, hi) as f64 / den as f64
    }
}

/// Convert fuzzer bytes to a tape (little endian, trailing bytes zero padded).
pub fn bytes_to_tape(data: &[u8]) -> Vec<u32> {
    data.chunks(4)
        .map(|c| {
            let mut b = [0u8; 4];
            b[..c.len()].copy_from_slice(c);
            u32::from_le_bytes(b)
        })
        .collect()
}
