//! Independent `.htsvoice` reader (no nom, no serde, no jlabel-question) and HTS wildcard matcher.
//! This is the oracle of C04/C10 and the source of the question pool for generated voices.

use std::collections::BTreeMap;

#[derive(Debug, Clone)]
pub struct FileNode {
    pub id: i64,
    pub question: String,
    pub no: String,
    pub yes: String,
}

#[derive(Debug, Clone)]
pub struct FileTree {
    pub state: usize,
    /// empty => single-leaf tree, `leaf` holds the PDF token
    pub nodes: Vec<FileNode>,
    pub leaf: Option<String>,
}

#[derive(Debug, Clone, Default)]
pub struct FileModel {
    pub questions: BTreeMap<String, Vec<String>>,
    pub question_order: Vec<String>,
    pub trees: Vec<FileTree>,
    /// pdf[tree][pdf_index-1][k]
    pub pdf: Vec<Vec<Vec<f32>>>,
}

#[derive(Debug, Clone)]
pub struct FileStream {
    pub name: String,
    pub vector_length: usize,
    pub num_windows: usize,
    pub is_msd: bool,
    pub use_gv: bool,
    pub options: Vec<String>,
    pub windows: Vec<Vec<f64>>,
    pub model: FileModel,
    pub gv: Option<FileModel>,
}

#[derive(Debug, Clone)]
pub struct FileVoice {
    pub global: BTreeMap<String, String>,
    pub sampling_frequency: usize,
    pub frame_period: usize,
    pub num_states: usize,
    pub num_streams: usize,
    pub stream_type: Vec<String>,
    pub gv_off_context: Vec<String>,
    pub duration: FileModel,
    pub streams: Vec<FileStream>,
}

fn kv_lines(text: &str) -> Result<BTreeMap<String, String>, String> {
    let mut m = BTreeMap::new();
    for line in text.lines() {
        if line.trim().is_empty() {
            continue;
        }
        let (k, v) = line.split_once(':').ok_or_else(|| format!("no colon in header line {:?}", line))?;
        m.insert(k.to_string(), v.to_string());
    }
    Ok(m)
}

fn strip_quotes(s: &str) -> &str {
    s.trim().trim_matches('"')
}

fn list(s: &str) -> Vec<String> {
    if s.trim().is_empty() {
        return vec![];
    }
    s.split(',').map(|x| strip_quotes(x).to_string()).collect()
}

fn range(s: &str) -> Result<(usize, usize), String> {
    let (a, b) = s.split_once('-').ok_or_else(|| format!("bad range {:?}", s))?;
    Ok((
        a.trim().parse().map_err(|_| format!("bad range {:?}", s))?,
        b.trim().parse().map_err(|_| format!("bad range {:?}", s))?,
    ))
}

fn slice<'a>(data: &'a [u8], r: (usize, usize)) -> Result<&'a [u8], String> {
    if r.0 > r.1 + 1 || r.1 >= data.len() {
        return Err(format!("range {}-{} outside data of {} bytes", r.0, r.1, data.len()));
    }
    Ok(&data[r.0..=r.1])
}

fn parse_model(data: &[u8], tree_r: (usize, usize), pdf_r: (usize, usize), pdf_len: usize) -> Result<FileModel, String> {
    let text = std::str::from_utf8(slice(data, tree_r)?).map_err(|e| e.to_string())?;
    let mut model = FileModel::default();
    // tokenise line by line
    let mut lines = text.lines().peekable();
    while let Some(line) = lines.next() {
        let l = line.trim();
        if l.is_empty() {
            continue;
        }
        if let Some(rest) = l.strip_prefix("QS ") {
            let rest = rest.trim();
            let (name, pats) = rest.split_once(char::is_whitespace).ok_or_else(|| format!("bad QS line {:?}", l))?;
            let pats = pats.trim();
            let inner = pats
                .strip_prefix('{')
                .and_then(|p| p.strip_suffix('}'))
                .ok_or_else(|| format!("bad QS braces {:?}", l))?;
            model.questions.insert(name.to_string(), list(inner));
            model.question_order.push(name.to_string());
        } else if let Some(rest) = l.strip_prefix("{*}[") {
            let (num, after) = rest.split_once(']').ok_or_else(|| format!("bad tree head {:?}", l))?;
            let state: usize = num.parse().map_err(|_| format!("bad state {:?}", l))?;
            let mut after = after.trim().to_string();
            if after.is_empty() {
                // next non-empty line is either "{" or the single leaf
                loop {
                    match lines.next() {
                        Some(n) if n.trim().is_empty() => continue,
                        Some(n) => {
                            after = n.trim().to_string();
                            break;
                        }
                        None => return Err("tree head at end of section".into()),
                    }
                }
            }
            if after == "{" || after.starts_with('{') {
                let mut nodes = Vec::new();
                let mut first = after.trim_start_matches('{').trim().to_string();
                loop {
                    let cur = if !first.is_empty() {
                        std::mem::take(&mut first)
                    } else {
                        match lines.next() {
                            Some(n) => n.trim().to_string(),
                            None => return Err("unterminated tree".into()),
                        }
                    };
                    if cur.is_empty() {
                        continue;
                    }
                    if cur == "}" {
                        break;
                    }
                    let (body, closes) = match cur.strip_suffix('}') {
                        Some(b) => (b.trim().to_string(), true),
                        None => (cur.clone(), false),
                    };
                    let toks: Vec<&str> = body.split_whitespace().collect();
                    if toks.len() != 4 {
                        return Err(format!("bad node line {:?}", cur));
                    }
                    nodes.push(FileNode {
                        id: toks[0].parse().map_err(|_| format!("bad node id {:?}", cur))?,
                        question: toks[1].to_string(),
                        no: strip_quotes(toks[2]).to_string(),
                        yes: strip_quotes(toks[3]).to_string(),
                    });
                    if closes {
                        break;
                    }
                }
                model.trees.push(FileTree { state, nodes, leaf: None });
            } else {
                model.trees.push(FileTree {
                    state,
                    nodes: vec![],
                    leaf: Some(strip_quotes(&after).to_string()),
                });
            }
        } else {
            return Err(format!("unexpected line in tree section: {:?}", l));
        }
    }
    // PDFs
    let bytes = slice(data, pdf_r)?;
    let ntree = model.trees.len();
    if bytes.len() < 4 * ntree {
        return Err("pdf section shorter than the tree count table".into());
    }
    let counts: Vec<usize> = (0..ntree)
        .map(|i| u32::from_le_bytes(bytes[4 * i..4 * i + 4].try_into().unwrap()) as usize)
        .collect();
    let mut off = 4 * ntree;
    for n in counts {
        let mut tree_pdf = Vec::with_capacity(n);
        for _ in 0..n {
            if off + 4 * pdf_len > bytes.len() {
                return Err("pdf section too short".into());
            }
            let v: Vec<f32> = (0..pdf_len)
                .map(|k| f32::from_le_bytes(bytes[off + 4 * k..off + 4 * k + 4].try_into().unwrap()))
                .collect();
            off += 4 * pdf_len;
            tree_pdf.push(v);
        }
        model.pdf.push(tree_pdf);
    }
    if off != bytes.len() {
        return Err(format!("pdf section has {} trailing bytes", bytes.len() - off));
    }
    Ok(model)
}

pub fn read_voice(bytes: &[u8]) -> Result<FileVoice, String> {
    let find = |needle: &[u8], from: usize| -> Option<usize> {
        bytes[from..].windows(needle.len()).position(|w| w == needle).map(|p| p + from)
    };
    let g = find(b"[GLOBAL]\n", 0).ok_or("no [GLOBAL]")?;
    let s = find(b"\n[STREAM]\n", g).ok_or("no [STREAM]")?;
    let p = find(b"\n[POSITION]\n", s).ok_or("no [POSITION]")?;
    let d = find(b"\n[DATA]\n", p).ok_or("no [DATA]")?;
    let tx = |a: usize, b: usize| std::str::from_utf8(&bytes[a..b]).map_err(|e| e.to_string());
    let global = kv_lines(tx(g + 9, s)?)?;
    let stream = kv_lines(tx(s + 10, p)?)?;
    let position = kv_lines(tx(p + 12, d)?)?;
    let data = &bytes[d + 8..];

    let get = |m: &BTreeMap<String, String>, k: &str| -> Result<String, String> {
        m.get(k).cloned().ok_or_else(|| format!("missing header key {}", k))
    };
    let num = |m: &BTreeMap<String, String>, k: &str| -> Result<usize, String> {
        get(m, k)?.trim().parse().map_err(|_| format!("bad number for {}", k))
    };
    let num_states = num(&global, "NUM_STATES")?;
    let stream_type = list(&get(&global, "STREAM_TYPE")?);
    let duration = parse_model(
        data,
        range(&get(&position, "DURATION_TREE")?)?,
        range(&get(&position, "DURATION_PDF")?)?,
        num_states * 2,
    )?;
    let mut streams = Vec::new();
    for name in &stream_type {
        let k = |base: &str| format!("{}[{}]", base, name);
        let vector_length = num(&stream, &k("VECTOR_LENGTH"))?;
        let num_windows = num(&stream, &k("NUM_WINDOWS"))?;
        let is_msd = get(&stream, &k("IS_MSD"))?.trim() == "1";
        let use_gv = get(&stream, &k("USE_GV"))?.trim() == "1";
        let options = list(&get(&stream, &k("OPTION"))?);
        let mut windows = Vec::new();
        for w in get(&position, &k("STREAM_WIN"))?.split(',') {
            let text = std::str::from_utf8(slice(data, range(w)?)?).map_err(|e| e.to_string())?;
            let mut toks = text.split_whitespace();
            let n: usize = toks.next().ok_or("empty window")?.parse().map_err(|_| "bad window size")?;
            let coefs: Vec<f64> = toks.map(|x| x.parse::<f64>().map_err(|_| "bad window coefficient".to_string())).collect::<Result<_, _>>()?;
            if coefs.len() != n {
                return Err("window size mismatch".into());
            }
            windows.push(coefs);
        }
        let model = parse_model(
            data,
            range(&get(&position, &k("STREAM_TREE"))?)?,
            range(&get(&position, &k("STREAM_PDF"))?)?,
            vector_length * num_windows * 2 + is_msd as usize,
        )?;
        let gv = if use_gv {
            Some(parse_model(
                data,
                range(&get(&position, &k("GV_TREE"))?)?,
                range(&get(&position, &k("GV_PDF"))?)?,
                vector_length * 2,
            )?)
        } else {
            None
        };
        streams.push(FileStream {
            name: name.clone(),
            vector_length,
            num_windows,
            is_msd,
            use_gv,
            options,
            windows,
            model,
            gv,
        });
    }
    Ok(FileVoice {
        sampling_frequency: num(&global, "SAMPLING_FREQUENCY")?,
        frame_period: num(&global, "FRAME_PERIOD")?,
        num_states,
        num_streams: num(&global, "NUM_STREAMS")?,
        stream_type,
        gv_off_context: list(&get(&global, "GV_OFF_CONTEXT")?),
        global,
        duration,
        streams,
    })
}

/// HTS wildcard match: '*' = any (possibly empty) sequence, '?' = exactly one character; the whole
/// text must be matched.
pub fn glob(pattern: &str, text: &str) -> bool {
    let p = pattern.as_bytes();
    let t = text.as_bytes();
    let (mut pi, mut ti) = (0usize, 0usize);
    let (mut star, mut mark) = (usize::MAX, 0usize);
    while ti < t.len() {
        if pi < p.len() && (p[pi] == b'?' || (p[pi] != b'*' && p[pi] == t[ti])) {
            pi += 1;
            ti += 1;
        } else if pi < p.len() && p[pi] == b'*' {
            star = pi;
            mark = ti;
            pi += 1;
        } else if star != usize::MAX {
            pi = star + 1;
            mark += 1;
            ti = mark;
        } else {
            return false;
        }
    }
    while pi < p.len() && p[pi] == b'*' {
        pi += 1;
    }
    pi == p.len()
}

pub fn any_glob(patterns: &[String], text: &str) -> bool {
    patterns.iter().any(|p| glob(p, text))
}

fn pdf_number(token: &str) -> Option<usize> {
    let digits: String = token.chars().rev().take_while(|c| c.is_ascii_digit()).collect::<String>().chars().rev().collect();
    digits.parse().ok()
}

#[derive(Debug, Clone, Default)]
pub struct Walk {
    /// questions evaluated along the path with their outcomes
    pub path: Vec<(String, bool)>,
}

impl FileModel {
    pub fn tree_for_state(&self, state: usize) -> Option<(usize, &FileTree)> {
        self.trees.iter().enumerate().find(|(_, t)| t.state == state)
    }

    /// Walk the file's tree for `state` with glob matching: first child on "no", second on "yes".
    /// Returns (tree index, 1-based pdf index, walk).
    pub fn select(&self, state: usize, label_text: &str) -> Result<(usize, usize, Walk), String> {
        let (ti, tree) = self.tree_for_state(state).ok_or_else(|| format!("no tree for state {}", state))?;
        let mut walk = Walk::default();
        if let Some(leaf) = &tree.leaf {
            return Ok((ti, pdf_number(leaf).ok_or("bad leaf")?, walk));
        }
        let mut cur = tree.nodes.first().ok_or("empty tree")?;
        for _ in 0..=tree.nodes.len() {
            let pats = self.questions.get(&cur.question).ok_or_else(|| format!("unknown question {}", cur.question))?;
            let yes = any_glob(pats, label_text);
            walk.path.push((cur.question.clone(), yes));
            let tok = if yes { &cur.yes } else { &cur.no };
            if let Ok(id) = tok.parse::<i64>() {
                cur = tree.nodes.iter().find(|n| n.id == id).ok_or_else(|| format!("dangling node id {}", id))?;
            } else {
                return Ok((ti, pdf_number(tok).ok_or("bad leaf")?, walk));
            }
        }
        Err("cycle in tree".into())
    }

    pub fn pdf_at(&self, tree: usize, pdf_index: usize) -> Result<&[f32], String> {
        self.pdf
            .get(tree)
            .and_then(|t| t.get(pdf_index.wrapping_sub(1)))
            .map(|v| v.as_slice())
            .ok_or_else(|| format!("pdf {} of tree {} missing", pdf_index, tree))
    }
}

#[cfg(test)]
mod tests {
    use super::glob;
    #[test]
    fn globbing() {
        assert!(glob("*-sil+*", "xx^xx-sil+b=o/A:xx"));
        assert!(!glob("*-sil+*", "xx^xx-pau+b=o/A:xx"));
        assert!(glob("*/A:-??+*", "a/A:-12+3"));
        assert!(!glob("*/A:-??+*", "a/A:-1+3"));
        assert!(glob("a^*", "a^b"));
        assert!(!glob("a^*", "ba^b"));
        assert!(glob("*", ""));
        assert!(glob("*-?", "x-1"));
        assert!(!glob("*-?", "x-12"));
    }
}
