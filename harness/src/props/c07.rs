//! C07 Excitation has the model's pitch and unit power.

use serde::Serialize;

use jbonsai::vocoder::Vocoder;

use crate::runner::{DynProp, Failure, Prop, Report, Tier};
use crate::tape::Tape;
use crate::{ensure, fail};

use super::c05::NODATA;
use super::c06::RATES;
use super::{no_custom, no_extra, PropertyDef};

pub fn def() -> PropertyDef {
    PropertyDef {
        id: "C07",
        level: "exploration",
        props: |_| {
            vec![
                Box::new(PulseTrain) as Box<dyn DynProp>,
                Box::new(NoiseStats) as Box<dyn DynProp>,
                Box::new(MixedExcitation) as Box<dyn DynProp>,
            ]
        },
        extra: no_extra,
        replay_custom: no_custom,
        assumptions: &[
            "observed through the public Vocoder with an all-zero mel-cepstrum (identity filter, unit gain), volume 1",
            "T0 = rate / exp(clamp(log F0, ln 20, ln 20000)); the period at frame sample i of a voiced frame following a voiced frame is T_prev + (T_cur - T_prev) i / fperiod; after an unvoiced frame (or at the start) the counter restarts with a pulse on the first sample",
            "pulse height^2 must equal the interpolated period within one sample of glide; gap d to the previous pulse must satisfy T(b) - 1 - max(0,-slope) - eps < d < T(b-1) + 1 + eps",
            "noise statistics are checked on >= 48000 samples with 6-sigma thresholds; the generator is seeded identically per Vocoder, so the check is deterministic",
        ],
    }
}

#[derive(Debug, Clone, Serialize)]
pub struct Case {
    pub rate: usize,
    pub fperiod: usize,
    /// per frame: Some(log F0) or None (no data)
    pub lf0: Vec<Option<f64>>,
    /// low-pass coefficients (empty = no LPF stream)
    pub lpf: Vec<f64>,
    /// optional second / third coefficient vectors and the per-frame choice among them
    /// (empty = the same `lpf` in every frame)
    #[serde(default)]
    pub lpf_alt: Vec<Vec<f64>>,
    #[serde(default)]
    pub lpf_choice: Vec<usize>,
}

fn run(c: &Case, lpf: &[f64]) -> Vec<f64> {
    run_varying(c, &|_| lpf)
}

/// Render with a low-pass vector chosen per frame.
fn run_varying<'a>(c: &Case, lpf_of: &dyn Fn(usize) -> &'a [f64]) -> Vec<f64> {
    let spectrum = [0.0, 0.0];
    let mut v = Vocoder::new(2, lpf_of(0).len(), 0, false, c.rate, 0.0, 0.0, 1.0, c.fperiod);
    let mut out = vec![0.0; c.fperiod * c.lf0.len()];
    // in about half of the cases the utterance is finished by a CLONE of the vocoder taken at a
    // frame boundary (the frame index is a function of the case): a clone carries the whole state
    // - pitch counter, noise generator, pending low-pass tails - and must continue identically
    let clone_at = (c.fperiod * 7 + c.rate / 1000) % (2 * c.lf0.len().max(1));
    for (f, l) in c.lf0.iter().enumerate() {
        let lf0 = l.unwrap_or(NODATA);
        if f > 0 && f == clone_at {
            let copy = v.clone();
            v = copy;
        }
        v.synthesize(lf0, &spectrum, lpf_of(f), &mut out[f * c.fperiod..(f + 1) * c.fperiod]);
    }
    out
}

fn period(rate: usize, lf0: f64) -> f64 {
    rate as f64 / lf0.clamp(20f64.ln(), 20000f64.ln()).exp()
}

pub fn gen_f0_track(t: &mut Tape, rate: usize, nframes: usize, allow_unvoiced: bool) -> Vec<Option<f64>> {
    let lo = 20f64.ln();
    let hi = (rate as f64 / 2.0).min(20000.0).ln();
    let mode = t.weighted(&[3, 3, 2, 2, 1]);
    let mut base = t.uniform(lo, hi);
    if mode == 4 {
        // a period of exactly k or k + 1/2 samples, held: the phase counter then returns to exactly
        // zero again and again, also on the last sample of a frame
        let k = t.urange(2, nframes.clamp(2, 60)) as f64 + if t.chance(0.3) { 0.5 } else { 0.0 };
        base = (rate as f64 / k).ln().clamp(lo, hi);
    }
    let mut cur = base;
    (0..nframes)
        .map(|_| {
            match mode {
                0 | 4 => {}                                                 // constant
                1 => {
                    if t.chance(0.3) {
                        cur = t.uniform(lo, hi);                            // steps
                    }
                }
                2 => cur = (cur + t.uniform(-0.15, 0.15)).clamp(lo, hi),     // slow glide
                _ => cur = t.uniform(lo, hi),                               // every frame new
            }
            if allow_unvoiced && t.chance(if mode == 0 { 0.1 } else if mode == 4 { 0.03 } else { 0.25 }) {
                None
            } else if t.chance(0.04) {
                // outside the limits: must behave like the limit
                // (above 20 kHz only where that is still below rate/2)
                // (far below the lower limit the log-F0 is NEGATIVE - 1 Hz is 0.0 - and still means 20 Hz)
                Some(if rate < 40000 || t.chance(0.5) { lo - if t.chance(0.5) { t.uniform(0.1, 3.0) } else { *t.pick(&[3.5, 5.0, 2.9957322735539909, 40.0, 1e6]) } } else { 20000f64.ln() + t.uniform(0.1, 2.0) })
            } else {
                Some(cur)
            }
        })
        .collect()
}

/// Check the pulse-train law on excitation samples `e` (one per sample, starting at frame 0).
/// Non-pulse samples of voiced frames must be exactly zero; unvoiced frames are ignored here.
fn check_pulse_law(c: &Case, e: &[f64], rep: &mut Report) -> Result<(), Failure> {
    let fp = c.fperiod;
    let n_total = (c.lf0.len() * fp).min(e.len());
    // per-sample period, slope, and restart marks from the frame track
    let mut tarr: Vec<Option<f64>> = vec![None; n_total];
    let mut sarr: Vec<f64> = vec![0.0; n_total];
    let mut restart: Vec<bool> = vec![false; n_total];
    let mut prev_t: Option<f64> = None;
    for (f, l) in c.lf0.iter().enumerate() {
        if f * fp >= n_total {
            break;
        }
        match l {
            None => prev_t = None,
            Some(l) => {
                let tcur = period(c.rate, *l);
                let (t0, slope) = match prev_t {
                    Some(p) => (p, (tcur - p) / fp as f64),
                    None => {
                        restart[f * fp] = true;
                        (tcur, 0.0)
                    }
                };
                for i in 0..fp {
                    if f * fp + i < n_total {
                        tarr[f * fp + i] = Some(t0 + slope * i as f64);
                        sarr[f * fp + i] = slope;
                    }
                }
                prev_t = Some(tcur);
            }
        }
    }
    let mut last_pulse: Option<usize> = None;
    let mut smax_since = 0.0f64; // max |slope| since the last pulse
    // the phase counter is "clean" while every glide since the last (re)start was slow
    // (|slope| <= 0.5 samples/sample); after a fast glide it can hold an excess that is released
    // as a burst, about which the property says nothing
    let mut clean = true;
    let mut npulses = 0usize;
    for n in 0..n_total {
        let Some(t) = tarr[n] else {
            last_pulse = None;
            smax_since = 0.0;
            continue;
        };
        let x = e[n];
        smax_since = smax_since.max(sarr[n].abs());
        if restart[n] {
            ensure!(x != 0.0, "pulse-restart", "sample {} (first sample of a voiced frame after start/unvoiced): no pulse", n);
            last_pulse = None;
            clean = true;
        }
        if sarr[n].abs() > 0.5 {
            clean = false;
        }
        if x == 0.0 {
            if let Some(a) = last_pulse {
                if clean {
                    let d = (n - a) as f64;
                    let t_prev = tarr[n - 1].unwrap_or(t);
                    ensure!(
                        d < t_prev.max(t) + 1.0 + 1e-6,
                        "pulse-gap",
                        "sample {} (frame {}): no pulse for {} samples although the period is {:.3} (rate {}, fperiod {})",
                        n, n / fp, d, t, c.rate, fp
                    );
                }
            }
            continue;
        }
        npulses += 1;
        let h2 = x * x;
        let tol = sarr[n].abs() + 1e-9 * t;
        ensure!(
            x > 0.0 && (h2 - t).abs() <= tol,
            "pulse-height",
            "sample {} (frame {}): value {} (height^2 {:.6}) but the period there is {:.6} (slope {:.4}/sample; rate {})",
            n, n / fp, x, h2, t, sarr[n], c.rate
        );
        match last_pulse {
            Some(a) => {
                let d = (n - a) as f64;
                if clean {
                    let t_prev = tarr[n - 1].unwrap_or(t);
                    // T(a) - T(a-1) is the glide step applied after sample a-1
                    let step_a = if a > 0 && tarr[a - 1].is_some() && !restart[a] { sarr[a - 1] } else { 0.0 };
                    let lo = t - 1.0 - (-step_a).max(0.0) - 1e-6;
                    let hi = t_prev + 1.0 + 1e-6;
                    ensure!(
                        d > lo && d < hi,
                        "pulse-gap",
                        "sample {} (frame {}): gap of {} samples to the previous pulse, period {:.4} (allowed ({:.4},{:.4}); rate {}, fperiod {})",
                        n, n / fp, d, t, lo, hi, c.rate, fp
                    );
                    rep.class("glide-gap-checked");
                    if smax_since == 0.0 && sarr[a] == 0.0 && step_a == 0.0 {
                        let first_after_restart = restart[a];
                        let ok = d == t.floor() || d == t.ceil() || (first_after_restart && d == t.ceil() - 1.0);
                        ensure!(ok, "pulse-gap-constant", "constant F0: gap {} not in {{floor,ceil}} of T0 = {:.6}", d, t);
                        rep.class("constant-gap-checked");
                    }
                } else {
                    rep.class("fast-glide-gap-skipped");
                }
            }
            None => {
                ensure!(restart[n], "pulse-restart", "sample {}: first pulse after a (re)start is not on the first sample of the frame", n);
            }
        }
        last_pulse = Some(n);
        smax_since = sarr[n].abs();
    }
    rep.metric("pulses", npulses as f64);
    Ok(())
}

pub struct PulseTrain;

impl Prop for PulseTrain {
    type Case = Case;
    fn name(&self) -> String {
        "pulse-train".into()
    }
    fn rule(&self) -> String {
        "no LPF stream; rate in 8k..96k, frame period 40..480, 2..40 frames, log-F0 track {constant | steps | slow glide | new value every frame} in [ln 20, ln min(rate/2,20000)] with 4 % values outside the limits and voiced/unvoiced switches; in voiced frames every non-zero sample must be a pulse of height sqrt(T(i)) and the gaps must follow the period (exactly floor/ceil T0 for constant F0, mean power 1 +- 2T0/N); unvoiced frames contain no exact zero. Non-trivial: a voiced run with >= 3 pulses".into()
    }
    fn tape_len(&self, _: Tier) -> usize {
        200
    }
    fn cases(&self, tier: Tier) -> u32 {
        tier.pick(40_000, 600_000)
    }
    fn decode(&self, t: &mut Tape, _: Tier) -> Case {
        let rate = *t.pick(RATES);
        let fperiod = match t.weighted(&[2, 3]) {
            0 => *t.pick(&[80usize, 240, 40, 480]),
            _ => t.urange(40, 480),
        };
        let nframes = t.urange(2, 40);
        let lf0 = gen_f0_track(t, rate, nframes, true);
        Case { rate, fperiod, lf0, lpf: vec![], lpf_alt: vec![], lpf_choice: vec![] }
    }
    fn check(&self, c: &Case) -> Result<Report, Failure> {
        let out = run(c, &[]);
        let mut rep = Report::new();
        if let Some(i) = out.iter().position(|x| !x.is_finite()) {
            fail!("excitation-nonfinite", "non-finite excitation sample at {}", i);
        }
        check_pulse_law(c, &out, &mut rep)?;
        // unvoiced frames: noise, never exactly zero
        for (f, l) in c.lf0.iter().enumerate() {
            if l.is_none() {
                let fr = &out[f * c.fperiod..(f + 1) * c.fperiod];
                ensure!(fr.iter().all(|x| *x != 0.0), "unvoiced-zero", "unvoiced frame {} contains an exact zero (not noise)", f);
            }
        }
        // constant all-voiced track: mean power 1 +- 2 T0 / N
        let all_const = c.lf0.iter().all(|l| l.is_some() && *l == c.lf0[0]);
        if all_const {
            let t0 = period(c.rate, c.lf0[0].unwrap());
            let n = out.len() as f64;
            let power: f64 = out.iter().map(|x| x * x).sum::<f64>() / n;
            ensure!((power - 1.0).abs() <= 2.0 * t0 / n + 1e-9, "mean-power", "constant F0: mean power {} (T0 {}, N {})", power, t0, n);
            rep.class("constant-track");
        }
        let pulses = out.iter().zip(0..).filter(|(x, n)| **x != 0.0 && c.lf0[n / c.fperiod].is_some()).count();
        rep.nontrivial = pulses >= 3;
        rep.class_if(c.lf0.iter().any(|l| l.is_none()), "has-unvoiced");
        rep.class_if(c.lf0.iter().flatten().any(|l| *l < 20f64.ln() || *l > 20000f64.ln()), "f0-outside-limits");
        rep.classes.sort();
        rep.classes.dedup();
        Ok(rep)
    }
}

#[derive(Debug, Clone, Serialize)]
pub struct NoiseCase {
    pub rate: usize,
    pub fperiod: usize,
    pub frames: usize,
    pub lpf_len: usize,
}

pub struct NoiseStats;

impl Prop for NoiseStats {
    type Case = NoiseCase;
    fn name(&self) -> String {
        "noise-stats".into()
    }
    fn rule(&self) -> String {
        "all frames unvoiced, >= 48000 samples (one case in ten: 1..4 million samples from one vocoder), with and without an LPF stream (h is irrelevant in unvoiced frames): |mean| < 0.03, variance within 5 %, |autocorrelation| at lags 1..8 < 0.03, no exact zeros. Non-trivial: every case; distinct by (rate, frame period, frames, LPF length)".into()
    }
    fn tape_len(&self, _: Tier) -> usize {
        12
    }
    fn cases(&self, tier: Tier) -> u32 {
        tier.pick(96, 600)
    }
    fn decode(&self, t: &mut Tape, _: Tier) -> NoiseCase {
        let rate = *t.pick(RATES);
        let fperiod = t.urange(40, 480);
        // one case in ten is a long utterance (20 s .. 90 s of audio): the noise source must keep
        // its statistics however long one vocoder has been running
        let frames = if t.chance(0.1) { (1_000_000 + t.below(3_000_000)) / fperiod } else { 48000 / fperiod + 1 + t.below(200) };
        let lpf_len = if t.chance(0.5) { 0 } else { 1 + 2 * t.below(16) };
        NoiseCase { rate, fperiod, frames, lpf_len }
    }
    fn check(&self, c: &NoiseCase) -> Result<Report, Failure> {
        let case = Case { rate: c.rate, fperiod: c.fperiod, lf0: vec![None; c.frames], lpf: vec![], lpf_alt: vec![], lpf_choice: vec![] };
        let lpf: Vec<f64> = (0..c.lpf_len).map(|i| 0.3 / (1.0 + i as f64)).collect();
        let out = run(&case, &lpf);
        let skip = c.lpf_len / 2; // the LPF path delays the noise by the filter's centre
        let x = &out[skip..];
        let n = x.len() as f64;
        ensure!(x.len() >= 47000, "harness", "too few samples");
        ensure!(x.iter().all(|v| v.is_finite() && *v != 0.0), "noise-zero", "noise contains an exact zero or a non-finite value");
        let mean = x.iter().sum::<f64>() / n;
        let var = x.iter().map(|v| (v - mean) * (v - mean)).sum::<f64>() / n;
        ensure!(mean.abs() < 0.03, "noise-mean", "noise mean {}", mean);
        ensure!((var - 1.0).abs() < 0.05, "noise-variance", "noise variance {}", var);
        let mut rep = Report::new();
        for lag in 1..=8 {
            let ac: f64 = x.iter().zip(&x[lag..]).map(|(a, b)| (a - mean) * (b - mean)).sum::<f64>() / (n * var);
            ensure!(ac.abs() < 0.03, "noise-autocorrelation", "noise autocorrelation at lag {} is {}", lag, ac);
            rep.metric("max_abs_autocorrelation", ac.abs());
        }
        rep.metric("abs_mean", mean.abs());
        rep.metric("abs_var_dev", (var - 1.0).abs());
        rep.nontrivial = true;
        rep.class(if c.lpf_len == 0 { "no-lpf" } else { "lpf" });
        rep.class_if(out.len() >= 1_000_000, ">=1e6-samples");
        Ok(rep)
    }
}

pub struct MixedExcitation;

impl Prop for MixedExcitation {
    type Case = Case;
    fn name(&self) -> String {
        "mixed-excitation".into()
    }
    fn rule(&self) -> String {
        "LPF stream of odd order 1..31 with random h (30 %: exact special taps 0 / 1 / -1, in particular a centre tap of exactly 1 or 0), constant or (50 %) changing from frame to frame among 2-3 vectors; same frames rendered with h (A), with h = delta (B) and with h = 0 (C): A[n] = C[n] + sum_i h[i] (B-C)[n-i+centre] to 1e-12 (noise-free metamorphic form of 'h*pulses + (delta-h)*noise'); B obeys the pulse-train law delayed by the centre tap; C is pure noise. Non-trivial: >= 1 voiced frame with a pulse and order >= 3".into()
    }
    fn tape_len(&self, _: Tier) -> usize {
        400
    }
    fn cases(&self, tier: Tier) -> u32 {
        tier.pick(30_000, 400_000)
    }
    fn decode(&self, t: &mut Tape, _: Tier) -> Case {
        let rate = *t.pick(RATES);
        let fperiod = t.urange(40, 300);
        let nframes = t.urange(2, 24);
        let lf0 = gen_f0_track(t, rate, nframes, true);
        let order = match t.weighted(&[1, 4, 2]) {
            0 => 1,
            1 => 1 + 2 * t.urange(1, 15),
            _ => 31,
        };
        // taps incl. exact special values (0, 1, -1; in particular a centre tap of exactly 1 or 0)
        let special = t.chance(0.3);
        let centre = order / 2;
        let centre_value = *t.pick(&[1.0, 0.0, 1.0, 0.5]);
        let lpf: Vec<f64> = (0..order)
            .map(|i| {
                let v = t.uniform(-0.5, 1.0);
                if special && i == centre {
                    centre_value
                } else if special && t.chance(0.2) {
                    *t.pick(&[0.0, 1.0, -1.0])
                } else {
                    v
                }
            })
            .collect();
        // half of the cases: the low-pass stream changes from frame to frame (it is a stream)
        let (lpf_alt, lpf_choice) = if t.chance(0.5) {
            let k = t.urange(1, 2);
            // one alternative in four is the all-zero vector (+0.0 or -0.0 in every tap): a voiced
            // frame without any periodic component - the pulse train keeps its phase through it
            let alt: Vec<Vec<f64>> = (0..k)
                .map(|_| {
                    if t.chance(0.25) {
                        let z = if t.chance(0.5) { 0.0 } else { -0.0 };
                        vec![z; order]
                    } else {
                        (0..order).map(|_| t.uniform(-0.5, 1.0)).collect()
                    }
                })
                .collect();
            let choice = (0..nframes).map(|_| t.below(k + 1)).collect();
            (alt, choice)
        } else {
            (vec![], vec![])
        };
        Case { rate, fperiod, lf0, lpf, lpf_alt, lpf_choice }
    }
    fn check(&self, c: &Case) -> Result<Report, Failure> {
        let l = c.lpf.len();
        let centre = (l - 1) / 2;
        let mut delta = vec![0.0; l];
        delta[centre] = 1.0;
        let zero = vec![0.0; l];
        let varying = !c.lpf_alt.is_empty();
        let h_of = |f: usize| -> &[f64] {
            if !varying {
                return &c.lpf;
            }
            match c.lpf_choice.get(f).copied().unwrap_or(0) {
                0 => &c.lpf,
                k => &c.lpf_alt[(k - 1).min(c.lpf_alt.len() - 1)],
            }
        };
        let a = run_varying(c, &h_of);
        let b = run(c, &delta);
        let cc = run(c, &zero);
        let n_total = a.len();
        let fp = c.fperiod;
        let mut rep = Report::new();
        // C: pure noise (never exactly zero after the initial delay)
        ensure!(cc[centre..].iter().all(|x| *x != 0.0 && x.is_finite()), "mixed-noise", "h = 0 must leave pure noise, found a zero / non-finite sample");
        // B - C is non-zero only where the emitting sample was voiced
        let d: Vec<f64> = b.iter().zip(&cc).map(|(x, y)| x - y).collect();
        let mut worst = 0.0f64;
        for n in 0..n_total.saturating_sub(centre) {
            // With a frame-varying h only samples whose whole tap window [n-L+1, n] lies in one
            // frame are compared: there "the current h" is unambiguous (whether an implementation
            // applies h when a sample enters or when it leaves the filter).
            let frame = n / fp;
            if varying && (n + 1 < l || (n + 1 - l) / fp != frame) {
                continue;
            }
            let mut want = cc[n];
            let mut mag = cc[n].abs();
            for (i, hi) in h_of(frame).iter().enumerate() {
                if n + centre < i {
                    continue;
                }
                let k = n + centre - i; // index into B-C
                if k >= n_total {
                    continue;
                }
                // the emitting sample is m = k - centre; it contributes only if its frame is voiced
                want += hi * d[k];
                mag += (hi * d[k]).abs();
            }
            let err = (a[n] - want).abs() / mag.max(1.0);
            worst = worst.max(err);
            ensure!(
                err <= 1e-12,
                "mixed-relation",
                "sample {}: with the low-pass stream the excitation is {} but h*pulses + (delta-h)*noise gives {} (order {}, frame {})",
                n, a[n], want, l, n / fp
            );
        }
        rep.metric("max_relation_error", worst);
        // B delayed by the centre tap is the plain excitation: pulses in voiced frames
        let e: Vec<f64> = (0..n_total - centre)
            .map(|m| if c.lf0[m / fp].is_some() { b[m + centre] } else { 0.0 })
            .collect();
        // in voiced frames B[m+centre] = pulse or 0
        let mut shifted = e.clone();
        shifted.resize(n_total, 0.0);
        let trimmed = Case { rate: c.rate, fperiod: c.fperiod, lf0: c.lf0[..(n_total - centre) / fp].to_vec(), lpf: vec![], lpf_alt: vec![], lpf_choice: vec![] };
        check_pulse_law(&trimmed, &shifted, &mut rep)?;
        for m in 0..n_total - centre {
            if c.lf0[m / fp].is_none() {
                ensure!(b[m + centre] == cc[m + centre], "mixed-unvoiced", "unvoiced sample {} differs between h = delta and h = 0", m);
            }
        }
        let pulses = e.iter().filter(|x| **x != 0.0).count();
        rep.nontrivial = pulses >= 1 && l >= 3;
        rep.class(format!("order:{}", match l { 1 => "1", 3..=9 => "3-9", 11..=29 => "11-29", _ => "31" }));
        rep.class_if(c.lf0.iter().any(|x| x.is_none()), "has-unvoiced");
        rep.class_if(varying, "frame-varying-h");
        rep.classes.sort();
        rep.classes.dedup();
        Ok(rep)
    }
}
