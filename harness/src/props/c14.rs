//! C14 The postfilter sharpens formants and preserves energy.

use std::f64::consts::PI;

use serde::Serialize;

use crate::dsp::{dft_logmag, mcep_logmag, measure_pulse, warp};
use crate::runner::{DynProp, Failure, Prop, Report, Tier};
use crate::tape::Tape;
use crate::{ensure, fail};

use super::c06::{gen_alpha, gen_cepstrum, reference_decays, RATES};
use super::{no_custom, no_extra, PropertyDef};

pub fn def() -> PropertyDef {
    PropertyDef {
        id: "C14",
        level: "exploration",
        props: |_| vec![Box::new(Postfilter) as Box<dyn DynProp>, Box::new(PostfilterAfterHistory) as Box<dyn DynProp>, Box::new(PostfilterAfterUnvoiced) as Box<dyn DynProp>, Box::new(super::c06::AfterFrames(1)) as Box<dyn DynProp>, Box::new(PostfilterEngine) as Box<dyn DynProp>],
        extra: no_extra,
        replay_custom: no_custom,
        assumptions: &[
            "responses are measured in frame 2 (frame 1 interpolates from the un-postfiltered start coefficients and is not the postfiltered filter)",
            "both the plain and the (1+beta)-scaled spectral shape stay within 2 nepers of the gain (Pade accuracy) and the reference responses decay inside the window; other cases are rejected and counted",
            "tolerances: shape relation constant within 0.005 neper (measured 6e-4), energy within 1 % (measured 2e-4)",
        ],
    }
}

#[derive(Debug, Clone, Serialize)]
pub struct Case {
    pub rate: usize,
    pub alpha: f64,
    pub beta: f64,
    pub cepstrum: Vec<f64>,
}

pub struct Postfilter;

impl Prop for Postfilter {
    type Case = Case;
    fn name(&self) -> String {
        "postfilter".into()
    }
    fn rule(&self) -> String {
        "cepstra as in C06 (orders 3..40 and order 2), alpha in {0} u [0,0.6], beta in (0,0.5] (and beta = 0); frame-2 pulse responses with and without beta: ln|H_b| - ln|H_0| - beta*sum_{m>=2} c_m cos(m w~) constant over w within 0.005; energies equal within 1 %; beta = 0 or length 2 -> responses bitwise identical. Non-trivial: beta > 0, length >= 3, both references decay".into()
    }
    fn tape_len(&self, _: Tier) -> usize {
        8 * 44 + 32
    }
    fn cases(&self, tier: Tier) -> u32 {
        tier.pick(8_000, 120_000)
    }
    fn decode(&self, t: &mut Tape, _: Tier) -> Case {
        let rate = *t.pick(RATES);
        let alpha = gen_alpha(t);
        let len = match t.weighted(&[1, 6, 2]) {
            0 => 2,
            1 => t.urange(3, 41),
            _ => t.urange(3, 6),
        };
        let beta = match t.weighted(&[1, 6, 2]) {
            0 => 0.0,
            1 => t.uniform(0.01, 0.5),
            _ => *t.pick(&[0.5, 0.1, 0.3, 0.4]),
        };
        // keep the (1+beta)-scaled shape inside 2 nepers as well
        let target = t.uniform(0.2, 2.0) / (1.0 + beta);
        // one case in four: the longest responses the domain allows, measured in SAMPLES - lowest
        // rate, strong warping, strong sharpening, high order (the energy compensation works on a
        // fixed number of samples, whatever the rate)
        if t.chance(0.25) {
            let alpha = *t.pick(&[0.55, 0.6, 0.58, 0.6]);
            let beta = *t.pick(&[0.5, 0.4, 0.45]);
            let len = t.urange(20, 41);
            let target = t.uniform(1.7, 2.0) / (1.0 + beta);
            let cepstrum = gen_cepstrum(t, len, alpha, target);
            return Case { rate: 8000, alpha, beta, cepstrum };
        }
        let cepstrum = gen_cepstrum(t, len, alpha, target);
        Case { rate, alpha, beta, cepstrum }
    }
    fn check(&self, c: &Case) -> Result<Report, Failure> {
        // (the log-gain flag belongs to the LSP family and must not matter: set in a fifth of the cases)
        let flag = c.cepstrum.len() % 5 == 0;
        let plain = measure_pulse(&c.cepstrum, 0, flag, c.rate, c.alpha, 0.0, 1.0);
        let post = measure_pulse(&c.cepstrum, 0, flag, c.rate, c.alpha, c.beta, 1.0);
        let mut rep = Report::new();
        let len = c.cepstrum.len();
        if c.beta == 0.0 || len <= 2 {
            let same = plain.frame2.iter().zip(&post.frame2).all(|(a, b)| a.to_bits() == b.to_bits())
                && plain.frame1.iter().zip(&post.frame1).all(|(a, b)| a.to_bits() == b.to_bits());
            ensure!(same, "postfilter-noop", "beta={} length={}: the postfilter must change nothing but the responses differ", c.beta, len);
            rep.class(if c.beta == 0.0 { "beta=0" } else { "length2-noop" });
            return Ok(rep);
        }
        // expected postfiltered cepstrum shape (up to the order-0 shift)
        let mut scaled = c.cepstrum.clone();
        for ci in scaled.iter_mut().skip(2) {
            *ci *= 1.0 + c.beta;
        }
        let w0 = plain.window;
        if !reference_decays(|w| mcep_logmag(&c.cepstrum, c.alpha, w), w0) || !reference_decays(|w| mcep_logmag(&scaled, c.alpha, w), w0) {
            return Ok(Report::rejected("reference-not-decayed"));
        }
        for (name, h) in [("plain", &plain.frame2), ("postfiltered", &post.frame2)] {
            if let Some(i) = h.iter().position(|x| !x.is_finite()) {
                fail!("postfilter-nonfinite", "{} response: non-finite sample at {}", name, i);
            }
        }
        let k = 65;
        let mut lo = f64::INFINITY;
        let mut hi = f64::NEG_INFINITY;
        for i in 0..k {
            let w = PI * i as f64 / (k - 1) as f64;
            let wt = warp(w, c.alpha);
            let expect: f64 = c.beta * c.cepstrum.iter().enumerate().skip(2).map(|(m, cm)| cm * (m as f64 * wt).cos()).sum::<f64>();
            let d = dft_logmag(&post.frame2, w) - dft_logmag(&plain.frame2, w) - expect;
            if d.is_nan() {
                fail!("postfilter-shape", "NaN in the spectral comparison");
            }
            lo = lo.min(d);
            hi = hi.max(d);
        }
        rep.metric("shape_relation_spread_neper", hi - lo);
        ensure!(
            hi - lo <= 0.005,
            "postfilter-shape",
            "ln|H_beta| - ln|H_0| - beta*sum_(m>=2) c_m cos(m w~) varies by {:.4} neper over frequency (beta {}, alpha {}, order {}): orders >= 2 are not scaled by 1+beta with order 1 unchanged",
            hi - lo, c.beta, c.alpha, len - 1
        );
        let e0: f64 = plain.frame2.iter().map(|x| x * x).sum();
        let e1: f64 = post.frame2.iter().map(|x| x * x).sum();
        let ratio = e1 / e0;
        rep.metric("energy_ratio_dev", (ratio - 1.0).abs());
        ensure!(
            (ratio - 1.0).abs() <= 0.01,
            "postfilter-energy",
            "impulse-response energy changes by factor {:.4} when the postfilter (beta {}) is enabled (alpha {}, order {}, rate {})",
            ratio, c.beta, c.alpha, len - 1, c.rate
        );
        rep.nontrivial = true;
        rep.class_if(c.alpha == 0.0, "alpha=0");
        rep.class_if(len == 3, "len=3");
        Ok(rep)
    }
}

#[derive(Debug, Clone, Serialize)]
pub struct HistCase {
    pub base: Case,
    pub mode: String,
    pub history: Vec<Vec<f64>>,
}

/// The postfiltered frame must not depend on the frames rendered before it.
pub struct PostfilterAfterHistory;

impl Prop for PostfilterAfterHistory {
    type Case = HistCase;
    fn name(&self) -> String {
        "postfilter-after-history".into()
    }
    fn rule(&self) -> String {
        "as postfilter (rate 8000, orders 3..16, beta in (0,0.5]), but with frame period 1 and a generated history before the measured stationary cepstrum: none | up to 40 frames of a cepstrum that differs only in a subset of coefficients (order 0 only, order 1 only, orders >= 2 only, last only, all) | slow drift; the responses to the second pulse with and without beta must obey the (1+beta) shape law (0.005) and have equal energy (1 %). Non-trivial: a non-empty history".into()
    }
    fn tape_len(&self, _: Tier) -> usize {
        160
    }
    fn cases(&self, tier: Tier) -> u32 {
        tier.pick(240, 6_000)
    }
    fn decode(&self, t: &mut Tape, _: Tier) -> HistCase {
        let rate = 8000;
        let alpha = gen_alpha(t);
        let len = t.urange(3, 16);
        let beta = t.uniform(0.05, 0.5);
        let target = t.uniform(0.2, 1.2) / (1.0 + beta);
        let mut cepstrum = gen_cepstrum(t, len, alpha, target);
        cepstrum[0] = t.uniform(-3.0, 3.0);
        let (history, mode) = crate::dsp::gen_spectrum_history(t, &cepstrum, 120, false);
        HistCase { base: Case { rate, alpha, beta, cepstrum }, mode, history }
    }
    fn check(&self, c: &HistCase) -> Result<Report, Failure> {
        let b = &c.base;
        let k2 = b.rate / 20;
        let window = k2 - 4;
        let mut scaled = b.cepstrum.clone();
        for ci in scaled.iter_mut().skip(2) {
            *ci *= 1.0 + b.beta;
        }
        // both responses must have decayed inside the window and before the second pulse
        let quiet = (k2 - c.history.len()).min(window);
        if !reference_decays(|w| mcep_logmag(&b.cepstrum, b.alpha, w), quiet) || !reference_decays(|w| mcep_logmag(&scaled, b.alpha, w), quiet) {
            return Ok(Report::rejected("reference-not-decayed"));
        }
        let (plain, _) = crate::dsp::measure_after_history(&c.history, &b.cepstrum, 0, false, b.rate, b.alpha, 0.0, window);
        let (post, _) = crate::dsp::measure_after_history(&c.history, &b.cepstrum, 0, false, b.rate, b.alpha, b.beta, window);
        let mut rep = Report::new();
        let k = 33;
        let mut lo = f64::INFINITY;
        let mut hi = f64::NEG_INFINITY;
        for i in 0..k {
            let w = PI * i as f64 / (k - 1) as f64;
            let wt = warp(w, b.alpha);
            let expect: f64 = b.beta * b.cepstrum.iter().enumerate().skip(2).map(|(m, cm)| cm * (m as f64 * wt).cos()).sum::<f64>();
            let d = dft_logmag(&post, w) - dft_logmag(&plain, w) - expect;
            if d.is_nan() {
                fail!("postfilter-shape", "NaN in the spectral comparison after a history");
            }
            lo = lo.min(d);
            hi = hi.max(d);
        }
        rep.metric("shape_relation_spread_neper", hi - lo);
        ensure!(hi - lo <= 0.005, "postfilter-history-dependence", "after the history '{}' the (1+beta) shape relation varies by {:.4} neper over frequency (beta {}, alpha {}, order {})", c.mode, hi - lo, b.beta, b.alpha, b.cepstrum.len() - 1);
        let e0: f64 = plain.iter().map(|x| x * x).sum();
        let e1: f64 = post.iter().map(|x| x * x).sum();
        let ratio = e1 / e0;
        rep.metric("energy_ratio_dev", (ratio - 1.0).abs());
        ensure!(
            (ratio - 1.0).abs() <= 0.01,
            "postfilter-history-dependence",
            "after the history '{}' ({} frames) enabling the postfilter changes the impulse-response energy by factor {:.4} (beta {}, alpha {}, order {})",
            c.mode, c.history.len(), ratio, b.beta, b.alpha, b.cepstrum.len() - 1
        );
        rep.nontrivial = !c.history.is_empty();
        rep.class(format!("history:{}", c.mode));
        Ok(rep)
    }
}

/// The postfiltered filter is the filter of EVERY frame, voiced or not: the response to the first
/// pulse after some unvoiced frames equals the stationary response.
#[derive(Debug, Clone, Serialize)]
pub struct UnvCase {
    pub base: Case,
    pub n_unvoiced: usize,
    /// 0 = mel-cepstral vocoder; 1..4 = LSP vocoder of that stage fed `lsp`
    pub stage: usize,
    pub lsp: Vec<f64>,
}

pub struct PostfilterAfterUnvoiced;

impl Prop for PostfilterAfterUnvoiced {
    type Case = UnvCase;
    fn name(&self) -> String {
        "postfilter-after-unvoiced".into()
    }
    fn rule(&self) -> String {
        "cepstra as in postfilter (vector length 3..24; a fifth of the cases: an LSP vocoder, stage 1..4, order 2..12), beta in [0,0.5], 1..4 unvoiced frames of the same stationary spectrum, then a voiced frame: the response to its first pulse - isolated by rendering the sequence at 20 Hz and at 40 Hz and taking the difference, which cancels the noise tails - must equal the stationary (frame-2, all voiced) response within 1e-6 of its peak. Non-trivial: beta > 0".into()
    }
    fn tape_len(&self, _: Tier) -> usize {
        8 * 26 + 64
    }
    fn cases(&self, tier: Tier) -> u32 {
        tier.pick(1_500, 30_000)
    }
    fn decode(&self, t: &mut Tape, _: Tier) -> UnvCase {
        let rate = *t.pick(&[16000usize, 8000, 22050, 48000]);
        let alpha = gen_alpha(t);
        let len = t.urange(3, 24);
        let beta = match t.weighted(&[1, 6, 2]) {
            0 => 0.0,
            1 => t.uniform(0.01, 0.5),
            _ => *t.pick(&[0.5, 0.1, 0.3, 0.4]),
        };
        let target = t.uniform(0.2, 2.0) / (1.0 + beta);
        let cepstrum = gen_cepstrum(t, len, alpha, target);
        let n_unvoiced = t.urange(1, 4);
        let (stage, lsp) = if t.chance(0.2) {
            let m = t.urange(2, 12);
            let mut l = vec![t.log_uniform(0.3, 3.0)];
            l.extend(super::c13::gen_lsp(t, m));
            (t.urange(1, 4), l)
        } else {
            (0, vec![])
        };
        UnvCase { base: Case { rate, alpha, beta, cepstrum }, n_unvoiced, stage, lsp }
    }
    fn check(&self, c: &UnvCase) -> Result<Report, Failure> {
        let b = &c.base;
        let spectrum: &[f64] = if c.stage == 0 { &b.cepstrum } else { &c.lsp };
        let stationary = measure_pulse(spectrum, c.stage, false, b.rate, b.alpha, b.beta, 1.0);
        let after = crate::dsp::measure_pulse_after_unvoiced(spectrum, c.stage, false, b.rate, b.alpha, b.beta, c.n_unvoiced);
        let n = after.len().min(stationary.frame2.len());
        ensure!(n >= 64, "harness", "window too short");
        if after.iter().chain(stationary.frame2.iter()).any(|x| !x.is_finite()) {
            return Ok(Report::rejected("non-finite-response"));
        }
        // the stationary reference (frame 2 of an all-voiced run) still contains the tail of the
        // response to frame 1's pulse: admit the case only when responses die out well inside a frame
        {
            let r = &stationary.frame1;
            let q = r.len() / 2;
            let tail: f64 = r[q..].iter().map(|x| x * x).sum();
            let total: f64 = r.iter().map(|x| x * x).sum();
            if !(tail <= 1e-18 * total) {
                return Ok(Report::rejected("response-longer-than-half-a-frame"));
            }
        }
        let scale = stationary.frame2[..n].iter().fold(0.0f64, |a, x| a.max(x.abs()));
        let dmax = (0..n).fold(0.0f64, |a, i| a.max((after[i] - stationary.frame2[i]).abs()));
        let mut rep = Report::new();
        rep.metric("max_time_domain_error_rel", dmax / scale);
        ensure!(
            dmax <= 1e-6 * scale,
            "postfilter-unvoiced-frames",
            "the response to the first pulse after {} unvoiced frame(s) differs from the stationary response by {:e} of its peak (stage {}, beta {}, alpha {}, vector length {}): the filter of unvoiced frames is not the (postfiltered) filter of voiced ones",
            c.n_unvoiced, dmax / scale, c.stage, b.beta, b.alpha, spectrum.len()
        );
        rep.nontrivial = b.beta > 0.0;
        rep.class(if c.stage == 0 { "mel-cepstral" } else { "lsp" });
        rep.class(format!("unvoiced-frames:{}", c.n_unvoiced));
        Ok(rep)
    }
}

/// The statement is about synthesis with a postfilter coefficient beta, which a caller sets on the
/// engine's condition: the beta that reaches the vocoder must be the one that was set, however small.
/// For generated mel-cepstral voices the engine's waveform must equal the rendering of its own
/// trajectories by a Vocoder built with exactly that beta (C01's differential, restricted to
/// beta > 0 and run on every C14 run; the vocoder-level sub-checks above decide what that beta does).
pub struct PostfilterEngine;

impl Prop for PostfilterEngine {
    type Case = super::c01::Case;
    fn name(&self) -> String {
        "postfilter-engine".into()
    }
    fn rule(&self) -> String {
        "generated mel-cepstral voice files, 1..12 labels, condition inside the envelope with beta log-uniform in [1e-4, 0.5] set through Condition::set_beta: Engine::synthesize == Vocoder(.., beta, ..) applied to the generator's trajectories (1e-9), plus all of C01's clauses. Non-trivial: >= 2 labels".into()
    }
    fn tape_len(&self, _: Tier) -> usize {
        12000
    }
    fn cases(&self, tier: Tier) -> u32 {
        tier.pick(500, 15_000)
    }
    fn decode(&self, t: &mut Tape, _: Tier) -> Self::Case {
        let mut base = crate::engine_case::gen_engine_case(t, 11, 0, false, crate::voice::GenOpts { lsp: Some(false), ..Default::default() });
        if base.labels.is_empty() {
            base.labels = crate::corpus::gen_label_lines(t, 1, false).0;
        }
        base.cond.beta = t.log_uniform(1e-4, 0.5);
        super::c01::Case { base, alignment: false, times: None, prior_voice: None }
    }
    fn check(&self, c: &Self::Case) -> Result<Report, Failure> {
        let mut rep = super::c01::Synthesis.check(c)?;
        // beta is the CALLER's setting, not the voice's: a condition on which it was set before the
        // voice set is (re)loaded keeps it (as it keeps speed and volume), whatever options the
        // voice's header carries (GAMMA=0 is written explicitly by a third of the generated voices)
        {
            let (mut e, _) = crate::engine_case::build_engine(&c.base.voice)?;
            e.condition.set_beta(c.base.cond.beta);
            let voices = e.voices.clone();
            if e.condition.load_model(&voices).is_err() {
                fail!("load-model", "Condition::load_model failed on the engine's own voices");
            }
            crate::ensure!(e.condition.get_beta().to_bits() == c.base.cond.beta.to_bits(), "postfilter-engine", "beta {} set before Condition::load_model reads back as {} afterwards", c.base.cond.beta, e.condition.get_beta());
            let mut prepared = jbonsai::Condition::default();
            prepared.set_beta(c.base.cond.beta);
            if prepared.load_model(&voices).is_err() {
                fail!("load-model", "Condition::load_model failed on a valid voice set");
            }
            crate::ensure!(prepared.get_beta().to_bits() == c.base.cond.beta.to_bits(), "postfilter-engine", "beta {} set on a fresh Condition before load_model reads back as {}", c.base.cond.beta, prepared.get_beta());
        }
        rep.class(format!("beta:{}", if c.base.cond.beta < 0.01 { "<0.01" } else if c.base.cond.beta < 0.1 { "0.01-0.1" } else { ">=0.1" }));
        Ok(rep)
    }
}
