//! C14 The postfilter sharpens formants and preserves energy.

use std::f64::consts::PI;

use serde::Serialize;

use crate::dsp::{dft_logmag, mcep_logmag, measure_pulse, warp};
use crate::runner::{DynProp, Failure, Prop, Report, Tier};
use crate::tape::Tape;
use crate::{ensure, fail};

use super::c06::{gen_alpha, gen_cepstrum, reference_decays, RATES};
use super::{no_custom, no_extra, PropertyDef};

pub fn def() -> PropertyDef {
    PropertyDef {
        id: "C14",
        level: "exploration",
        props: |_| vec![Box::new(Postfilter) as Box<dyn DynProp>],
        extra: no_extra,
        replay_custom: no_custom,
        assumptions: &[
            "responses are measured in frame 2 (frame 1 interpolates from the un-postfiltered start coefficients and is not the postfiltered filter)",
            "both the plain and the (1+beta)-scaled spectral shape stay within 2 nepers of the gain (Pade accuracy) and the reference responses decay inside the window; other cases are rejected and counted",
            "tolerances: shape relation constant within 0.005 neper (measured 6e-4), energy within 1 % (measured 2e-4)",
        ],
    }
}

#[derive(Debug, Clone, Serialize)]
pub struct Case {
    pub rate: usize,
    pub alpha: f64,
    pub beta: f64,
    pub cepstrum: Vec<f64>,
}

pub struct Postfilter;

impl Prop for Postfilter {
    type Case = Case;
    fn name(&self) -> String {
        "postfilter".into()
    }
    fn rule(&self) -> String {
        "cepstra as in C06 (orders 3..40 and order 2), alpha in {0} u [0,0.6], beta in (0,0.5] (and beta = 0); frame-2 pulse responses with and without beta: ln|H_b| - ln|H_0| - beta*sum_{m>=2} c_m cos(m w~) constant over w within 0.005; energies equal within 1 %; beta = 0 or length 2 -> responses bitwise identical. Non-trivial: beta > 0, length >= 3, both references decay".into()
    }
    fn tape_len(&self, _: Tier) -> usize {
        4 * 42 + 16
    }
    fn cases(&self, tier: Tier) -> u32 {
        tier.pick(8_000, 120_000)
    }
    fn decode(&self, t: &mut Tape, _: Tier) -> Case {
        let rate = *t.pick(RATES);
        let alpha = gen_alpha(t);
        let len = match t.weighted(&[1, 6, 2]) {
            0 => 2,
            1 => t.urange(3, 40),
            _ => t.urange(3, 6),
        };
        let beta = match t.weighted(&[1, 6, 2]) {
            0 => 0.0,
            1 => t.uniform(0.01, 0.5),
            _ => *t.pick(&[0.5, 0.1, 0.3, 0.4]),
        };
        // keep the (1+beta)-scaled shape inside 2 nepers as well
        let target = t.uniform(0.2, 2.0) / (1.0 + beta);
        let cepstrum = gen_cepstrum(t, len, alpha, target);
        Case { rate, alpha, beta, cepstrum }
    }
    fn check(&self, c: &Case) -> Result<Report, Failure> {
        let plain = measure_pulse(&c.cepstrum, 0, false, c.rate, c.alpha, 0.0, 1.0);
        let post = measure_pulse(&c.cepstrum, 0, false, c.rate, c.alpha, c.beta, 1.0);
        let mut rep = Report::new();
        let len = c.cepstrum.len();
        if c.beta == 0.0 || len <= 2 {
            let same = plain.frame2.iter().zip(&post.frame2).all(|(a, b)| a.to_bits() == b.to_bits())
                && plain.frame1.iter().zip(&post.frame1).all(|(a, b)| a.to_bits() == b.to_bits());
            ensure!(same, "postfilter-noop", "beta={} length={}: the postfilter must change nothing but the responses differ", c.beta, len);
            rep.class(if c.beta == 0.0 { "beta=0" } else { "length2-noop" });
            return Ok(rep);
        }
        // expected postfiltered cepstrum shape (up to the order-0 shift)
        let mut scaled = c.cepstrum.clone();
        for ci in scaled.iter_mut().skip(2) {
            *ci *= 1.0 + c.beta;
        }
        let w0 = plain.window;
        if !reference_decays(|w| mcep_logmag(&c.cepstrum, c.alpha, w), w0) || !reference_decays(|w| mcep_logmag(&scaled, c.alpha, w), w0) {
            return Ok(Report::rejected("reference-not-decayed"));
        }
        for (name, h) in [("plain", &plain.frame2), ("postfiltered", &post.frame2)] {
            if let Some(i) = h.iter().position(|x| !x.is_finite()) {
                fail!("postfilter-nonfinite", "{} response: non-finite sample at {}", name, i);
            }
        }
        let k = 65;
        let mut lo = f64::INFINITY;
        let mut hi = f64::NEG_INFINITY;
        for i in 0..k {
            let w = PI * i as f64 / (k - 1) as f64;
            let wt = warp(w, c.alpha);
            let expect: f64 = c.beta * c.cepstrum.iter().enumerate().skip(2).map(|(m, cm)| cm * (m as f64 * wt).cos()).sum::<f64>();
            let d = dft_logmag(&post.frame2, w) - dft_logmag(&plain.frame2, w) - expect;
            if d.is_nan() {
                fail!("postfilter-shape", "NaN in the spectral comparison");
            }
            lo = lo.min(d);
            hi = hi.max(d);
        }
        rep.metric("shape_relation_spread_neper", hi - lo);
        ensure!(
            hi - lo <= 0.005,
            "postfilter-shape",
            "ln|H_beta| - ln|H_0| - beta*sum_(m>=2) c_m cos(m w~) varies by {:.4} neper over frequency (beta {}, alpha {}, order {}): orders >= 2 are not scaled by 1+beta with order 1 unchanged",
            hi - lo, c.beta, c.alpha, len - 1
        );
        let e0: f64 = plain.frame2.iter().map(|x| x * x).sum();
        let e1: f64 = post.frame2.iter().map(|x| x * x).sum();
        let ratio = e1 / e0;
        rep.metric("energy_ratio_dev", (ratio - 1.0).abs());
        ensure!(
            (ratio - 1.0).abs() <= 0.01,
            "postfilter-energy",
            "impulse-response energy changes by factor {:.4} when the postfilter (beta {}) is enabled (alpha {}, order {}, rate {})",
            ratio, c.beta, c.alpha, len - 1, c.rate
        );
        rep.nontrivial = true;
        rep.class_if(c.alpha == 0.0, "alpha=0");
        rep.class_if(len == 3, "len=3");
        Ok(rep)
    }
}
