//! C15 Additional half tone transposes F0 and nothing else.

use serde::Serialize;

use jbonsai::label::Labels;
use jbonsai::model::Models;

use crate::engine_case::{build_engine, gen_engine_case, EngineCase, HALF_TONE};
use crate::engine_util::trajectories;
use crate::runner::{DynProp, Failure, Prop, Report, Tier};
use crate::tape::Tape;
use crate::util::catch;
use crate::voice::GenOpts;
use crate::{ensure, fail};

use super::c05::NODATA;
use super::{no_custom, no_extra, PropertyDef};

pub fn def() -> PropertyDef {
    PropertyDef {
        id: "C15",
        level: "exploration",
        props: |_| vec![Box::new(HalfToneShift) as Box<dyn DynProp>],
        extra: no_extra,
        replay_custom: no_custom,
        assumptions: &[
            "metamorphic relation against the same engine with h = 0, observed on the hook trajectories: frame count, voiced/unvoiced pattern, spectrum and low-pass trajectories bitwise equal",
            "if no *voiced* state's static log-F0 mean (public Models API) leaves [ln 20, ln 20000] after the shift, every voiced log-F0 moves by h*ln2/12 within 1e-8 (1e-5 when the F0 stream's GV weight is below 0.25, where the GV iteration is ill-conditioned; MLPG and the GV iteration are shift-equivariant; measured 5e-13 / 3e-8); otherwise only the invariants are required",
            "the clamp itself is checked on the public StreamParameter::apply_additional_half_tone",
        ],
    }
}

#[derive(Debug, Clone, Serialize)]
pub struct Case {
    pub base: EngineCase,
    pub half_tone: f64,
}

pub struct HalfToneShift;

const MIN_LF0: f64 = 2.995_732_273_553_991;
const MAX_LF0: f64 = 9.903_487_552_536_127;

impl Prop for HalfToneShift {
    type Case = Case;
    fn name(&self) -> String {
        "half-tone-shift".into()
    }
    fn rule(&self) -> String {
        "engine/utterance/condition as in C01 (1..12 labels, GV on where the voice has it), h in [-24,24] (uniform, bounds, 0, +-12); compared with h = 0. Non-trivial: h != 0 and >= 1 voiced frame".into()
    }
    fn tape_len(&self, _: Tier) -> usize {
        12000
    }
    fn cases(&self, tier: Tier) -> u32 {
        tier.pick(10_000, 150_000)
    }
    fn decode(&self, t: &mut Tape, _: Tier) -> Case {
        let mut base = gen_engine_case(t, 12, 15, false, GenOpts::default());
        base.cond.half_tone = 0.0;
        let half_tone = match t.weighted(&[1, 6, 2]) {
            0 => 0.0,
            1 => t.uniform(-24.0, 24.0),
            _ => *t.pick(&[24.0, -24.0, 12.0, -12.0, 1.0, -0.5]),
        };
        Case { base, half_tone }
    }
    fn check(&self, c: &Case) -> Result<Report, Failure> {
        let (mut engine, _info) = build_engine(&c.base.voice)?;
        c.base.cond.apply(&mut engine);
        let lines = c.base.labels.as_slice();
        let gen = |e: &jbonsai::Engine| match catch(|| e.generator(lines)) {
            Ok(Ok(g)) => Ok(trajectories(&g)),
            Ok(Err(err)) => Err(Failure::new("generator", err.to_string())),
            Err(p) => Err(Failure::new(p.signature(), format!("generator panicked: {}", p.msg))),
        };
        let t0 = gen(&engine)?;
        let mut shifted = engine.clone();
        shifted.condition.set_additional_half_tone(c.half_tone);
        // the half tone is the caller's setting, not the voice's: re-reading the voice defaults
        // (every fifth case, chosen by the number of labels) must keep it
        let before_reload = c.base.labels.len() % 5 == 2;
        if before_reload {
            let vs = shifted.voices.clone();
            if let Err(e) = shifted.condition.load_model(&vs) {
                fail!("load-model", "Condition::load_model failed on the engine's own voices: {}", e);
            }
            let ht = shifted.condition.get_additional_half_tone();
            c.base.cond.apply(&mut shifted);
            shifted.condition.set_additional_half_tone(ht);
            *shifted.condition.get_interporation_weight_mut() = engine.condition.get_interporation_weight().clone();
        }
        ensure!(shifted.condition.get_additional_half_tone() == c.half_tone, "half-tone-roundtrip", "getter returns {} after set {}", shifted.condition.get_additional_half_tone(), c.half_tone);
        let t1 = gen(&shifted)?;
        ensure!(t0.lf0.len() == t1.lf0.len(), "half-tone-durations", "frame count changes from {} to {} with h = {}", t0.lf0.len(), t1.lf0.len(), c.half_tone);
        for (name, a, b) in [("spectrum", &t0.spectrum, &t1.spectrum), ("low-pass", &t0.lpf, &t1.lpf)] {
            let same = a.len() == b.len() && a.iter().zip(b).all(|(x, y)| x.len() == y.len() && x.iter().zip(y).all(|(p, q)| p.to_bits() == q.to_bits() || (p.is_nan() && q.is_nan())));
            ensure!(same, "half-tone-other-stream", "the {} trajectory changes with h = {}", name, c.half_tone);
        }
        let voiced0: Vec<bool> = t0.lf0.iter().map(|f| f[0] != NODATA).collect();
        let voiced1: Vec<bool> = t1.lf0.iter().map(|f| f[0] != NODATA).collect();
        ensure!(voiced0 == voiced1, "half-tone-voicing", "the voiced/unvoiced pattern changes with h = {}", c.half_tone);
        // public StreamParameter level: clamp law and "nothing else"
        let cond = &engine.condition;
        let labels = match Labels::load_from_strings(cond.get_sampling_frequency(), cond.get_fperiod(), lines) {
            Ok(l) => l,
            Err(e) => fail!("label-load", "{}", e),
        };
        let models = Models::new(labels.labels(), &engine.voices, cond.get_interporation_weight());
        let orig = models.model_stream(1).stream;
        let mut moved = orig.clone();
        moved.apply_additional_half_tone(c.half_tone);
        let thr = cond.get_msd_threshold(1);
        let mut clamped_voiced = false;
        for (s, (o, m)) in orig.iter().zip(moved.iter()).enumerate() {
            let want = if c.half_tone == 0.0 { o.0[0].0 } else { (o.0[0].0 + c.half_tone * HALF_TONE).clamp(MIN_LF0, MAX_LF0) };
            ensure!((m.0[0].0 - want).abs() <= 1e-12, "half-tone-clamp", "state {}: static mean {} -> {}, expected clamp({} + h ln2/12) = {}", s, o.0[0].0, m.0[0].0, o.0[0].0, want);
            ensure!(m.1 == o.1 && m.0[0].1 == o.0[0].1 && m.0[1..] == o.0[1..], "half-tone-other-params", "state {}: apply_additional_half_tone changed more than the static mean", s);
            let unclamped = o.0[0].0 + c.half_tone * HALF_TONE;
            if o.1 > thr && !(MIN_LF0..=MAX_LF0).contains(&unclamped) {
                clamped_voiced = true;
            }
        }
        let mut rep = Report::new();
        let nvoiced = voiced0.iter().filter(|v| **v).count();
        if c.half_tone == 0.0 {
            let same = t0.lf0.iter().zip(&t1.lf0).all(|(a, b)| a[0].to_bits() == b[0].to_bits());
            ensure!(same, "half-tone-identity", "h = 0 changes the log-F0 trajectory");
            rep.class("h=0");
        } else if !clamped_voiced {
            let d = c.half_tone * HALF_TONE;
            let mut worst = 0.0f64;
        // the GV iteration is shift-equivariant in exact arithmetic; with a GV weight close to 0 it drives
        // the variance of the contour towards 0 and becomes ill-conditioned (3e-8 observed at weight 0 on
        // the unchanged tree, 5e-13 otherwise): the tolerance follows the weight
        let shift_tol = if shifted.condition.get_gv_weight(1) >= 0.25 { 1e-8 } else { 1e-5 };
            for (i, (a, b)) in t0.lf0.iter().zip(&t1.lf0).enumerate() {
                if voiced0[i] {
                    let err = (b[0] - a[0] - d).abs();
                    worst = worst.max(err);
                    ensure!(err <= shift_tol, "half-tone-shift", "frame {}: log-F0 {} -> {} with h = {} (expected +{}, error {:e})", i, a[0], b[0], c.half_tone, d, err);
                }
            }
            rep.metric("max_shift_error", worst);
            rep.class("shift-checked");
        } else {
            rep.class("clamp-reached");
        }
        rep.nontrivial = c.half_tone != 0.0 && nvoiced >= 1;
        rep.class(c.base.voice.class());
        rep.class_if(nvoiced == 0, "no-voiced-frame");
        Ok(rep)
    }
}
