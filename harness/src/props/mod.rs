//! One module per property.

use serde_json::Value;

use crate::runner::{DynProp, Session, Tier};

pub mod c01;
pub mod c02;
pub mod c03;
pub mod c04;
pub mod c05;
pub mod c06;
pub mod c07;
pub mod c08;
pub mod c09;
pub mod c10;
pub mod c11;
pub mod c12;
pub mod c13;
pub mod c14;
pub mod c15;
pub mod c16;
pub mod c17;
pub mod c18;
pub mod c19;
pub mod c20;

pub struct PropertyDef {
    pub id: &'static str,
    pub level: &'static str,
    pub props: fn(Tier) -> Vec<Box<dyn DynProp>>,
    /// Non-proptest parts (enumerations, regression inputs); may be a no-op.
    pub extra: fn(&mut Session),
    /// Replay of non-tape replay files.
    pub replay_custom: fn(&mut Session, &Value) -> bool,
    pub assumptions: &'static [&'static str],
}

pub fn no_extra(_: &mut Session) {}
pub fn no_custom(_: &mut Session, _: &Value) -> bool {
    eprintln!("this property has no custom replay kinds");
    false
}

pub fn all() -> Vec<PropertyDef> {
    vec![c01::def(), c02::def(), c03::def(), c04::def(), c05::def(), c06::def(), c07::def(), c08::def(), c09::def(), c10::def(), c11::def(), c12::def(), c13::def(), c14::def(), c15::def(), c16::def(), c17::def(), c18::def(), c19::def(), c20::def()]
}

pub fn find(id: &str) -> Option<PropertyDef> {
    all().into_iter().find(|d| d.id == id)
}

fn replay_value(def: &PropertyDef, s: &mut Session, props: &[Box<dyn DynProp>], v: &Value) -> bool {
    let kind = v.get("kind").and_then(|k| k.as_str()).unwrap_or("tape");
    if kind == "tape" {
        let name = v.get("check").and_then(|k| k.as_str()).unwrap_or("");
        let tier = match v.get("tier").and_then(|k| k.as_str()) {
            Some("thorough") => Tier::Thorough,
            _ => Tier::Quick,
        };
        let tape: Vec<u32> = v
            .get("tape")
            .and_then(|t| t.as_array())
            .map(|a| a.iter().map(|x| x.as_u64().unwrap_or(0) as u32).collect())
            .unwrap_or_default();
        // sub-check lists can depend on the tier
        let tier_props;
        let list: &[Box<dyn DynProp>] = if tier == s.tier {
            props
        } else {
            tier_props = (def.props)(tier);
            &tier_props
        };
        match list.iter().find(|p| p.name() == name) {
            Some(p) => s.replay_tape(p.as_ref(), &tape, tier),
            None => {
                eprintln!("replay: no sub-check named {:?} in {}", name, def.id);
                false
            }
        }
    } else {
        (def.replay_custom)(s, v)
    }
}

fn replay_path(def: &PropertyDef, s: &mut Session, props: &[Box<dyn DynProp>], path: &std::path::Path) -> bool {
    let text = match std::fs::read_to_string(path) {
        Ok(t) => t,
        Err(e) => {
            eprintln!("cannot read replay file {}: {}", path.display(), e);
            return false;
        }
    };
    let v: Value = match serde_json::from_str(&text) {
        Ok(v) => v,
        Err(e) => {
            eprintln!("cannot parse replay file {}: {}", path.display(), e);
            return false;
        }
    };
    replay_value(def, s, props, &v)
}

/// Run a whole property check (or a single replay) and return the exit code.
pub fn run_property(def: &PropertyDef, tier: Tier, seed: u64, replay: Option<&str>) -> i32 {
    let mut s = Session::new(def.id, tier, seed, def.level);
    for a in def.assumptions {
        s.assume(a);
    }
    let props = (def.props)(tier);
    if let Some(file) = replay {
        let ok = replay_path(def, &mut s, &props, std::path::Path::new(file));
        if ok && s.violations.is_empty() {
            println!("replay {}: property held", file);
            return 0;
        }
        if s.violations.is_empty() {
            return 2;
        }
        return 1;
    }
    // regression tier: committed minimal inputs of earlier findings and of seeded defects
    let dir = crate::util::verif_dir().join("replays").join("regress");
    if let Ok(rd) = std::fs::read_dir(&dir) {
        let mut files: Vec<_> = rd
            .filter_map(|e| e.ok())
            .map(|e| e.path())
            .filter(|p| {
                p.file_name()
                    .and_then(|n| n.to_str())
                    .map(|n| n.starts_with(&format!("{}-", def.id)) && n.ends_with(".json"))
                    .unwrap_or(false)
            })
            .collect();
        files.sort();
        for f in files {
            replay_path(def, &mut s, &props, &f);
        }
    }
    for p in &props {
        s.run_prop(p.as_ref());
    }
    (def.extra)(&mut s);
    s.finish()
}
