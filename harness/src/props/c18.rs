//! C18 A malformed voice file is an error, not a crash.

use std::sync::OnceLock;
use std::time::Instant;

use serde::Serialize;
use serde_json::{json, Value};

use jbonsai::model::load_htsvoice_file;
use jbonsai::Engine;

use crate::alloc_count::{installed, reset_thread_peak, thread_peak_since};
use crate::bundled::bundled_bytes;
use crate::faults::{apply_fault, index_voice, replace_number, text_spans, truncation_points, NUMBER_REPLACEMENTS, STRUCTURAL_CHARS};
use crate::runner::{DynProp, Failure, Prop, Report, Session, Tier};
use crate::tape::Tape;
use crate::util::{catch, hash64};
use crate::voice::{gen_voice, write_temp, GenOpts, TempVoice};
use crate::{ensure, fail};

use super::PropertyDef;

pub fn def() -> PropertyDef {
    PropertyDef {
        id: "C18",
        level: "fault_enumeration",
        props: |_| vec![Box::new(Faulted) as Box<dyn DynProp>],
        extra,
        replay_custom,
        assumptions: &[
            "oracle: load_htsvoice_file and Engine::load return Ok or Err; a panic is a violation; peak live heap of the loading thread (counting global allocator) <= 64 x file size + 256 MiB; a load that takes more than 20 s (valid files: < 0.1 s) is treated as non-termination only if it reproduces in an isolated re-run",
            "an abort of the process (allocation failure, stack overflow) is observed by the parent process, which re-runs the in-flight cases one by one to attribute it",
            "enumerated single faults on the bundled voice and 20 generated voices: every header number x 11 replacements, every header line deleted / duplicated, every range inverted, truncation at every section / block boundary +-1; generated single and double faults add tree/question token edits, byte flips, non-UTF-8 bytes and PDF-table bytes",
            "the harness is built with overflow checks on (like a debug build of a downstream user), so arithmetic overflow in the loader shows up as a panic",
        ],
    }
}

#[derive(Debug, Default, Clone)]
pub struct LoadOutcome {
    pub loaded: bool,
    pub engine_ok: bool,
    pub peak: usize,
    pub secs: f64,
}

/// Write the current case where the parent process can find it if this process dies or hangs.
pub fn note_inflight(desc: &Value, bytes: &[u8]) {
    if let Ok(dir) = std::env::var("VERIF_INFLIGHT_DIR") {
        let tid = format!("{:?}", std::thread::current().id()).replace(['(', ')'], "_");
        let _ = std::fs::write(format!("{}/{}.bin", dir, tid), bytes);
        let _ = std::fs::write(format!("{}/{}.json", dir, tid), desc.to_string());
    }
}

pub fn clear_inflight() {
    if let Ok(dir) = std::env::var("VERIF_INFLIGHT_DIR") {
        let tid = format!("{:?}", std::thread::current().id()).replace(['(', ')'], "_");
        let _ = std::fs::remove_file(format!("{}/{}.json", dir, tid));
        let _ = std::fs::remove_file(format!("{}/{}.bin", dir, tid));
    }
}

/// The oracle: both loaders must return, without panic, within the memory bound.
pub fn check_load(bytes: &[u8]) -> Result<LoadOutcome, Failure> {
    let tmp = TempVoice(write_temp(bytes, "c18"));
    let mut out = LoadOutcome::default();
    let base = reset_thread_peak();
    let t0 = Instant::now();
    match catch(|| load_htsvoice_file(&tmp.0)) {
        Ok(Ok(_)) => out.loaded = true,
        Ok(Err(_)) => {}
        Err(p) => fail!(p.signature(), "load_htsvoice_file panicked at {}:{}: {}", p.file, p.line, p.msg),
    }
    match catch(|| Engine::load(&[&tmp.0])) {
        Ok(Ok(_)) => out.engine_ok = true,
        Ok(Err(_)) => {}
        Err(p) => fail!(p.signature(), "Engine::load panicked at {}:{}: {}", p.file, p.line, p.msg),
    }
    out.secs = t0.elapsed().as_secs_f64();
    out.peak = thread_peak_since(base);
    if installed() {
        let bound = 64 * bytes.len() + (256 << 20);
        ensure!(out.peak <= bound, "memory-bound", "loading a {}-byte file kept {} bytes live at its peak (bound {})", bytes.len(), out.peak, bound);
    }
    ensure!(!(out.engine_ok && !out.loaded), "inconsistent-load", "Engine::load succeeded on a file that load_htsvoice_file rejects");
    Ok(out)
}

/// Base voices of the enumeration: bundled + 20 generated (fixed tapes).
pub fn base_voice(k: usize) -> Vec<u8> {
    if k == 0 {
        return bundled_bytes().to_vec();
    }
    static GEN: OnceLock<Vec<Vec<u8>>> = OnceLock::new();
    GEN.get_or_init(|| {
        (1..=20u32)
            .map(|i| {
                let words: Vec<u32> = (0..6000u32).map(|j| (hash64(&(i, j, 0xC18u32)) >> 16) as u32).collect();
                let mut t = Tape::new(&words);
                gen_voice(&mut t, GenOpts { max_depth: 3, ..GenOpts::default() }).to_bytes()
            })
            .collect()
    })[(k - 1) % 20]
        .clone()
}

#[derive(Debug, Clone, Serialize)]
pub struct Case {
    /// 0 = bundled, 1..=20 = fixed generated bases, 21 = freshly generated from the tape
    pub base: usize,
    pub nfaults: usize,
    #[serde(skip)]
    pub bytes: Vec<u8>,
    pub faults: Vec<String>,
    pub size: usize,
    pub digest: u64,
}

pub struct Faulted;

impl Prop for Faulted {
    type Case = Case;
    fn name(&self) -> String {
        "generated-faults".into()
    }
    fn rule(&self) -> String {
        "a valid voice (freshly generated 70 %, one of 20 fixed generated 24 %, bundled 6 %) with 1 (60 %) or 2..3 generated faults from {truncation at boundaries/random offsets, header number -> {0,1,v+-1,2^32,2^64-1,2^64,-1,text,huge,empty}, ranges inverted/swapped, header line deleted/duplicated, tree/question token edits incl. unknown names, removed braces/quotes, '25?'-style wildcards, byte flips in text, non-UTF-8 header byte, PDF table bytes}. Non-trivial: the loader rejects the file (Err) or a multi-fault case; distinct by file digest".into()
    }
    fn tape_len(&self, _: Tier) -> usize {
        6400
    }
    fn cases(&self, tier: Tier) -> u32 {
        tier.pick(30_000, 1_000_000)
    }
    fn decode(&self, t: &mut Tape, _: Tier) -> Case {
        let which = t.weighted(&[70, 24, 6]);
        let nfaults = match t.weighted(&[6, 3, 1]) {
            0 => 1,
            1 => 2,
            _ => 3,
        };
        let (base, mut bytes) = match which {
            0 => (21, gen_voice(t, GenOpts { max_depth: 3, ..GenOpts::default() }).to_bytes()),
            1 => {
                let k = 1 + t.below(20);
                (k, base_voice(k))
            }
            _ => (0, base_voice(0)),
        };
        let mut faults = Vec::new();
        for _ in 0..nfaults {
            let (b, d) = apply_fault(t, &bytes);
            bytes = b;
            faults.push(d);
        }
        let digest = hash64(&bytes);
        Case { base, nfaults, size: bytes.len(), digest, bytes, faults }
    }
    fn check(&self, c: &Case) -> Result<Report, Failure> {
        note_inflight(&json!({ "faults": c.faults, "digest": c.digest }), &c.bytes);
        let r = check_load(&c.bytes);
        clear_inflight();
        let out = match r {
            Ok(o) => o,
            Err(mut f) => {
                // keep the bytes: the tape only reproduces them while the generator is unchanged
                let dir = crate::util::verif_dir().join("replays");
                let _ = std::fs::create_dir_all(&dir);
                let p = dir.join(format!("C18-{:012x}.htsvoice", c.digest & 0xffff_ffff_ffff));
                let _ = std::fs::write(&p, &c.bytes);
                f.message = format!("{} [file saved as {}; re-run with: check C18 --replay-bytes <file>]", f.message, p.display());
                return Err(f);
            }
        };
        let mut rep = Report::new();
        rep.nontrivial = !out.loaded || c.nfaults > 1;
        rep.class(if out.loaded { "result:Ok" } else { "result:Err" });
        rep.class(format!("base:{}", match c.base { 0 => "bundled", 21 => "fresh-generated", _ => "fixed-generated" }));
        for f in &c.faults {
            let kind = f.split([':', '@', '#', '(']).next().unwrap_or("?");
            rep.class(format!("fault:{}", kind));
        }
        rep.classes.sort();
        rep.classes.dedup();
        rep.metric("peak_heap_over_file_size", out.peak as f64 / c.size.max(1) as f64);
        rep.metric("load_seconds", out.secs);
        Ok(rep)
    }
}

const ENUM_RULE: &str = "deterministic single-fault grid on the bundled voice and 20 fixed generated voices: every header number x 11 replacements; every header line deleted and duplicated; the values of every two range-holding header lines exchanged; truncation at every section/block boundary +-1; every single-character substitution (17 structural characters and the 8 one-bit errors) at every position of the header, tree and window text (header only on the bundled voice); on generated voices every pair (one header number -> 0, another one -> value+-1 or 1) and every compensating pair (one -> value-1, another -> value+1); plus the unmodified file (must load). Non-trivial: loader returned Err; distinct by (base, fault)";

fn eval_enum_case(base: usize, desc: &str, bytes: &[u8], must_load: bool) -> Result<LoadOutcome, Failure> {
    note_inflight(&json!({ "kind": "enum", "base": base, "fault": desc }), bytes);
    let r = check_load(bytes).and_then(|o| {
        if must_load {
            ensure!(o.loaded && o.engine_ok, "valid-voice-rejected", "the unmodified base voice {} does not load", base);
        }
        Ok(o)
    });
    clear_inflight();
    r
}

fn record_enum_case(s: &mut Session, base: usize, desc: String, bytes: &[u8], r: Result<LoadOutcome, Failure>) -> bool {
    let d = json!({ "base": base, "fault": desc });
    match r {
        Ok(o) => {
            let mut rep = Report::new();
            rep.nontrivial = !o.loaded;
            rep.class(if o.loaded { "result:Ok" } else { "result:Err" });
            rep.metric("peak_heap_over_file_size", o.peak as f64 / bytes.len().max(1) as f64);
            rep.metric("load_seconds", o.secs);
            s.record("fault-grid", ENUM_RULE, hash64(&(base, &desc)), &rep, || d.clone());
            true
        }
        Err(f) => {
            let hex_path = save_bytes(s, bytes);
            let body = json!({ "kind": "bytes-file", "path": hex_path, "base": base, "fault": desc });
            !s.failure("fault-grid", &f, body)
        }
    }
}

fn run_enum_case(s: &mut Session, base: usize, desc: String, bytes: &[u8], must_load: bool) -> bool {
    let r = eval_enum_case(base, &desc, bytes, must_load);
    record_enum_case(s, base, desc, bytes, r)
}

fn save_bytes(s: &Session, bytes: &[u8]) -> String {
    let dir = crate::util::verif_dir().join("replays");
    let _ = std::fs::create_dir_all(&dir);
    let p = dir.join(format!("{}-{:012x}.htsvoice", s.property, hash64(bytes) & 0xffff_ffff_ffff));
    let _ = std::fs::write(&p, bytes);
    p.display().to_string()
}

fn extra(s: &mut Session) {
    let nbases = s.tier.pick(6, 21);
    let mut total = 0u64;
    for base in 0..nbases {
        let bytes = base_voice(base);
        let Some(idx) = index_voice(&bytes) else { continue };
        if !run_enum_case(s, base, "none".into(), &bytes, true) {
            return;
        }
        // the bundled voice is large: in the quick tier only a stride of its grid
        let stride = if base == 0 { s.tier.pick(7, 1) } else { 1 };
        let mut k = 0usize;
        for (ni, tok) in idx.numbers.iter().enumerate() {
            for r in 0..NUMBER_REPLACEMENTS.len() {
                k += 1;
                if k % stride != 0 {
                    continue;
                }
                let b = replace_number(&bytes, tok, r);
                total += 1;
                if !run_enum_case(s, base, format!("number#{}->{}", ni, NUMBER_REPLACEMENTS[r]), &b, false) {
                    return;
                }
            }
        }
        for (li, (range, key, _)) in idx.lines.iter().enumerate() {
            k += 1;
            if k % stride != 0 {
                continue;
            }
            let mut del = bytes[..range.start].to_vec();
            del.extend_from_slice(&bytes[range.end..]);
            let mut dup = bytes[..range.end].to_vec();
            dup.extend_from_slice(&bytes[range.clone()]);
            dup.extend_from_slice(&bytes[range.end..]);
            total += 2;
            if !run_enum_case(s, base, format!("delete-line#{}:{}", li, key), &del, false) || !run_enum_case(s, base, format!("duplicate-line#{}:{}", li, key), &dup, false) {
                return;
            }
        }
        // offsets swapped: the right-hand sides of every two header lines that hold data ranges are
        // exchanged (e.g. the window list of one stream with that of another, a PDF range with a tree
        // range); not strided - there are at most a few hundred pairs per voice
        {
            let with_ranges: Vec<usize> = idx
                .lines
                .iter()
                .enumerate()
                .filter(|(_, (_, _, v))| v.split(',').all(|r| r.split_once('-').map(|(a, b)| !a.is_empty() && a.bytes().all(|c| c.is_ascii_digit()) && !b.is_empty() && b.bytes().all(|c| c.is_ascii_digit())).unwrap_or(false)))
                .map(|(i, _)| i)
                .collect();
            for (x, &i) in with_ranges.iter().enumerate() {
                for &j in &with_ranges[x + 1..] {
                    let (ri, ki, vi) = &idx.lines[i];
                    let (rj, kj, vj) = &idx.lines[j];
                    if vi == vj || ri.end > rj.start {
                        continue;
                    }
                    let nl = |r: &std::ops::Range<usize>| if bytes[r.clone()].ends_with(b"\n") { "\n" } else { "" };
                    let mut b = bytes[..ri.start].to_vec();
                    b.extend_from_slice(format!("{}:{}{}", ki, vj, nl(ri)).as_bytes());
                    b.extend_from_slice(&bytes[ri.end..rj.start]);
                    b.extend_from_slice(format!("{}:{}{}", kj, vi, nl(rj)).as_bytes());
                    b.extend_from_slice(&bytes[rj.end..]);
                    total += 1;
                    if !run_enum_case(s, base, format!("swap-values:{}<->{}", ki, kj), &b, false) {
                        return;
                    }
                }
            }
        }
        for p in truncation_points(&bytes, &idx) {
            k += 1;
            if k % stride != 0 {
                continue;
            }
            total += 1;
            if !run_enum_case(s, base, format!("truncate@{}", p), &bytes[..p], false) {
                return;
            }
        }
    }
    // every single-character substitution (structural characters and all 8 one-bit errors) at every
    // position of the text sections: all of them on small generated voices, header only (and a
    // stride of it in the quick tier) on the bundled voice, whose tree text is a megabyte
    let char_bases: Vec<usize> = if s.tier == Tier::Quick { vec![0, 1, 2, 3] } else { (0..nbases).collect() };
    let mut chars = 0u64;
    for base in char_bases {
        let bytes = base_voice(base);
        let Some(idx) = index_voice(&bytes) else { continue };
        let stride = if base == 0 { s.tier.pick(5, 1) } else { 1 };
        let mut k = 0usize;
        let mut jobs: Vec<(&'static str, usize, u8)> = Vec::new();
        for (kind, a, b) in text_spans(&bytes, &idx) {
            if base == 0 && kind != "header" {
                continue;
            }
            for p in a..b {
                let orig = bytes[p];
                let subs = STRUCTURAL_CHARS.iter().copied().chain((0..8).map(|bit| orig ^ (1u8 << bit)));
                for c in subs {
                    if c == orig {
                        continue;
                    }
                    k += 1;
                    if k % stride == 0 {
                        jobs.push((kind, p, c));
                    }
                }
            }
        }
        // the loads are independent: evaluate them on all cores, record in order
        let nthreads = std::thread::available_parallelism().map(|n| n.get()).unwrap_or(4).min(16);
        let chunk = jobs.len().div_ceil(nthreads).max(1);
        let desc_of = |j: &(&'static str, usize, u8)| format!("{}-char@{}:{:#04x}->{:#04x}", j.0, j.1, bytes[j.1], j.2);
        let results: Vec<Vec<Result<LoadOutcome, Failure>>> = std::thread::scope(|sc| {
            let hs: Vec<_> = jobs
                .chunks(chunk)
                .map(|part| {
                    let bytes = &bytes;
                    let desc_of = &desc_of;
                    sc.spawn(move || {
                        let mut f = bytes.clone();
                        part.iter()
                            .map(|j| {
                                let orig = f[j.1];
                                f[j.1] = j.2;
                                let r = eval_enum_case(base, &desc_of(j), &f, false);
                                f[j.1] = orig;
                                r
                            })
                            .collect::<Vec<_>>()
                    })
                })
                .collect();
            hs.into_iter().map(|h| h.join().unwrap_or_default()).collect()
        });
        for (j, r) in jobs.iter().zip(results.into_iter().flatten()) {
            let mut f = Vec::new();
            if r.is_err() {
                f = bytes.clone();
                f[j.1] = j.2;
            }
            chars += 1;
            // (the byte count only feeds a ratio metric; the faulty file has the base's length)
            let b: &[u8] = if r.is_err() { &f } else { &bytes };
            if !record_enum_case(s, base, desc_of(j), b, r) {
                return;
            }
        }
    }
    total += chars;
    // double faults on header numbers: one number set to 0 together with another one moved by +-1
    // (a count or length that becomes zero while an offset slips by one is the classic way to make a
    // reader loop or allocate without bound); all pairs, on the small generated voices
    let pair_bases: Vec<usize> = if s.tier == Tier::Quick { vec![1, 2] } else { (1..nbases).collect() };
    let mut pairs = 0u64;
    for base in pair_bases {
        let bytes = base_voice(base);
        let Some(idx) = index_voice(&bytes) else { continue };
        let n = idx.numbers.len();
        // (first number, second number, replacement of the second - +1, -1 or the constant 1, which
        // turns a range into the empty `1-0`): the first becomes 0; with the
        // marker 13 the first becomes value-1 while the second becomes value+1 (a COMPENSATING pair:
        // products such as vector length x windows stay intact while the factors disagree with the
        // rest of the file)
        let jobs: Vec<(usize, usize, usize)> = (0..n).flat_map(|i| (0..n).filter(move |j| *j != i).flat_map(move |j| [(i, j, 2usize), (i, j, 3usize), (i, j, 13usize), (i, j, 1usize)])).collect();
        let build = |j: &(usize, usize, usize)| -> Vec<u8> {
            // replace the later token first so that the earlier token's offsets stay valid
            let (zero, moved, r) = *j;
            let (r_first, r) = if r == 13 { (3, 2) } else { (0, r) };
            if idx.numbers[zero].start > idx.numbers[moved].start {
                let b = replace_number(&bytes, &idx.numbers[zero], r_first);
                replace_number(&b, &idx.numbers[moved], r)
            } else {
                let b = replace_number(&bytes, &idx.numbers[moved], r);
                replace_number(&b, &idx.numbers[zero], r_first)
            }
        };
        let desc_of = |j: &(usize, usize, usize)| if j.2 == 13 { format!("number#{}->value-1 + number#{}->value+1", j.0, j.1) } else { format!("number#{}->0 + number#{}->{}", j.0, j.1, match j.2 { 2 => "value+1", 3 => "value-1", _ => "1" }) };
        let nthreads = std::thread::available_parallelism().map(|n| n.get()).unwrap_or(4).min(16);
        let chunk = jobs.len().div_ceil(nthreads).max(1);
        let results: Vec<Vec<Result<LoadOutcome, Failure>>> = std::thread::scope(|sc| {
            let hs: Vec<_> = jobs
                .chunks(chunk)
                .map(|part| {
                    let build = &build;
                    let desc_of = &desc_of;
                    sc.spawn(move || part.iter().map(|j| eval_enum_case(base, &desc_of(j), &build(j), false)).collect::<Vec<_>>())
                })
                .collect();
            hs.into_iter().map(|h| h.join().unwrap_or_default()).collect()
        });
        for (j, r) in jobs.iter().zip(results.into_iter().flatten()) {
            pairs += 1;
            let b = if r.is_err() { build(j) } else { Vec::new() };
            let bref: &[u8] = if r.is_err() { &b } else { &bytes };
            if !record_enum_case(s, base, desc_of(j), bref, r) {
                return;
            }
        }
    }
    total += pairs;
    s.extra.insert("enumerated_double_number_faults".into(), json!(pairs));
    s.set_exhaustive("fault-grid", true);
    s.extra.insert("enumerated_single_faults".into(), json!(total));
    s.extra.insert("enumerated_single_character_substitutions".into(), json!(chars));
    // known findings that live in a dependency: replay their committed inputs
    let dir = crate::util::verif_dir().join("replays").join("known");
    if let Ok(rd) = std::fs::read_dir(&dir) {
        let mut files: Vec<_> = rd.filter_map(|e| e.ok()).map(|e| e.path()).filter(|p| p.extension().map(|e| e == "htsvoice").unwrap_or(false)).collect();
        files.sort();
        for f in files {
            if let Ok(bytes) = std::fs::read(&f) {
                let name = f.file_name().and_then(|n| n.to_str()).unwrap_or("?").to_string();
                run_enum_case(s, 99, format!("known-input:{}", name), &bytes, false);
            }
        }
    }
}

fn replay_custom(s: &mut Session, v: &Value) -> bool {
    let Some(path) = v.get("path").and_then(|p| p.as_str()) else {
        eprintln!("replay file has no 'path' to the saved bytes");
        return false;
    };
    let Ok(bytes) = std::fs::read(path) else {
        eprintln!("cannot read {}", path);
        return false;
    };
    run_enum_case(s, 98, format!("replay:{}", path), &bytes, false)
}
