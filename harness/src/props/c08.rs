//! C08 Speaking rate scales the utterance, never below one frame per state.

use serde::Serialize;

use jbonsai::duration::DurationEstimator;
use jbonsai::model::{MeanVari, Models};

use crate::corpus::{gen_label_lines, parse_lines};
use crate::engine_util::trajectories;
use crate::runner::{DynProp, Failure, Prop, Report, Tier};
use crate::tape::Tape;
use crate::{ensure, fail};

use super::{no_custom, no_extra, PropertyDef};

pub fn def() -> PropertyDef {
    PropertyDef {
        id: "C08",
        level: "exploration",
        props: |_| vec![Box::new(SpeedLaw) as Box<dyn DynProp>, Box::new(EngineSpeed) as Box<dyn DynProp>],
        extra: no_extra,
        replay_custom: no_custom,
        assumptions: &[
            "oracle = closed-form law of the property (round half away from zero). For the total at speed s the rounded float quotient round(F1/s) and the exactly computed round of F1/s (integer arithmetic on the binary value of s) must agree with the result; where these two differ from each other (float division rounded across a .5 boundary) either is accepted. Per-state means within 1e-9 of a .5 tie accept either neighbour",
            "engine layer: expected frame count derived from the public Models::duration() of the same engine, so it checks the speed wiring, not the duration trees (C04)",
        ],
    }
}

/// round-half-away-from-zero of the EXACT quotient f1 / s (s taken as its exact binary value),
/// computed in integer arithmetic. None if out of the supported range.
pub fn exact_round_quotient(f1: u64, s: f64) -> Option<u64> {
    if !(s.is_finite() && s > 0.0) || f1 >= (1 << 40) {
        return None;
    }
    let bits = s.to_bits();
    let exp = ((bits >> 52) & 0x7ff) as i64;
    if exp == 0 {
        return None;
    }
    let m = ((bits & ((1u64 << 52) - 1)) | (1u64 << 52)) as u128; // s = m * 2^(exp-1075)
    let e = exp - 1075;
    // floor(f1/s + 1/2) = floor((2 f1 + s) / (2 s)); scale numerator and denominator by 2^-e or 2^e
    let (num, den): (u128, u128) = if e <= 0 {
        let sh = (-e) as u32;
        if sh > 80 {
            return None;
        }
        ((2 * f1 as u128).checked_shl(sh)?.checked_add(m)?, 2 * m)
    } else {
        let sh = e as u32;
        if sh > 60 {
            return None;
        }
        (2 * f1 as u128 + (m << sh), 2 * (m << sh))
    };
    if (2 * f1 as u128) >= (1u128 << (127 - (-e).max(0) as u32)) {
        return None;
    }
    u64::try_from(num / den).ok()
}

/// Candidates of round(x) where x may sit on a .5 tie (within tol): returns (lo, hi).
pub fn round_candidates(x: f64, tol: f64) -> (f64, f64) {
    let r = x.round();
    let frac = (x - x.floor() - 0.5).abs();
    if frac <= tol {
        (x.floor(), x.floor() + 1.0)
    } else {
        (r, r)
    }
}

#[derive(Debug, Clone, Serialize)]
pub struct Case {
    pub nstate: usize,
    pub params: Vec<(f64, f64)>,
    pub speeds: Vec<f64>,
    /// an alignment request made on the same estimator object BEFORE the speed requests (its
    /// result is decided by C09; here it is only history that must not matter)
    pub earlier_alignment: Option<Vec<(f64, f64)>>,
}

pub struct SpeedLaw;

fn gen_params(t: &mut Tape, n: usize) -> Vec<(f64, f64)> {
    let mode = t.weighted(&[10, 4, 2, 2, 3]);
    let m0 = t.log_uniform(0.2, 60.0);
    let v0 = t.log_uniform(1e-3, 400.0);
    (0..n)
        .map(|_| match mode {
            0 => (t.log_uniform(0.2, 60.0), t.log_uniform(1e-3, 400.0)),
            1 => (m0, v0),                                         // all equal: equal-cost ties
            2 => (t.urange(1, 12) as f64 + 0.5, v0),               // exact .5 means
            4 => {
                // a hair beside a .5 boundary (interpolated means land anywhere): 1 ulp .. 1e-7
                let b = t.urange(0, 59) as f64 + 0.5;
                let d = *t.pick(&[0.0, 1e-7, 3e-8, 1e-9, 1e-12]);
                let m = if d == 0.0 { f64::from_bits(b.to_bits() - 1) } else { b - d };
                (if t.chance(0.3) { 2.0 * b - m } else { m }, t.log_uniform(1e-3, 400.0))
            }
            _ => (t.uniform(0.2, 1.6), t.log_uniform(1e-3, 400.0)), // floor dominated
        })
        .collect()
}

impl Prop for SpeedLaw {
    type Case = Case;
    fn name(&self) -> String {
        "speed-law".into()
    }
    fn rule(&self) -> String {
        "DurationEstimator::create on 1..200 generated states (means log-uniform 0.2..60, variances 1e-3..400; modes: independent | all equal (ties) | exact .5 means | floor-dominated | means 1 ulp..1e-7 beside a .5 boundary) at speed 1 and 4 sorted speeds in [0.1,50] (log-uniform | special | near 1 | constructed rounding boundaries F1/(k+0.5) +- 0..2 ulp), in 30 % of the eligible cases after an alignment request on the same estimator object; oracle: d_i == max(round(mean_i),1) at speed 1, sum == max(round(F1/s), n), d_i >= 1, totals non-increasing in s. Non-trivial: a speed != 1 for which the all-ones floor or a total different from F1 occurs".into()
    }
    fn tape_len(&self, _: Tier) -> usize {
        900
    }
    fn cases(&self, tier: Tier) -> u32 {
        tier.pick(200_000, 3_000_000)
    }
    fn decode(&self, t: &mut Tape, _: Tier) -> Case {
        let nstate = t.urange(1, 7);
        let n = match t.weighted(&[3, 3, 1]) {
            0 => t.urange(1, 10),
            1 => t.urange(1, 60),
            _ => t.urange(1, 200),
        };
        let params = gen_params(t, n);
        // F1 is a pure function of the generated parameters, so boundary speeds can be constructed:
        // s = F1 / (k + 0.5) and its neighbouring doubles put F1/s on (or one ulp beside) a rounding tie
        let f1: f64 = params.iter().map(|(m, _)| m.round().max(1.0)).sum();
        let mut speeds: Vec<f64> = (0..4)
            .map(|_| match t.weighted(&[6, 1, 1, 4, 2]) {
                0 => t.log_uniform(0.1, 50.0),
                1 => *t.pick(&[1.0, 0.1, 50.0, 0.5, 2.0, 4.0, 0.25]),
                2 => 1.0 + t.uniform(-1e-3, 1e-3),
                4 => {
                    // the rounding tie that coincides with the FLOOR: F1/s = (number of states) + 0.5,
                    // or one state beside it (and the neighbouring doubles of that speed)
                    let k = (n as f64 + *t.pick(&[0.0, 0.0, 0.0, -1.0, 1.0])).max(0.0);
                    let s = f1 / (k + 0.5);
                    let nudge = t.range(-2, 2);
                    let s = f64::from_bits((s.to_bits() as i64 + nudge) as u64);
                    s.clamp(0.1, 50.0)
                }
                _ => {
                    let lo = (f1 / 50.0).floor().max(1.0);
                    let hi = (f1 / 0.1).floor().max(lo);
                    let k = lo + (t.unit() * (hi - lo)).floor();
                    let s = f1 / (k + 0.5);
                    let nudge = t.range(-2, 2);
                    let s = f64::from_bits((s.to_bits() as i64 + nudge) as u64);
                    s.clamp(0.1, 50.0)
                }
            })
            .collect();
        speeds.sort_by(|a, b| a.partial_cmp(b).unwrap());
        let earlier_alignment = if n % nstate == 0 && t.chance(0.3) {
            let nl = n / nstate;
            let mut cur = 0.0;
            let mut times: Vec<(f64, f64)> = (0..nl)
                .map(|_| {
                    let start = cur;
                    cur += t.uniform(0.0, 3.0 * nstate as f64);
                    (if t.chance(0.5) { start } else { -1.0 }, if t.chance(0.6) { cur } else { -1.0 })
                })
                .collect();
            if t.chance(0.6) {
                // a trailing label without end time (model-duration fallback) after a known end
                times[nl - 1].1 = -1.0;
                if nl >= 2 {
                    let k = t.below(nl - 1);
                    times[k].1 = times[k].1.max(1.0);
                }
            }
            Some(times)
        } else {
            None
        };
        Case { nstate, params, speeds, earlier_alignment }
    }
    fn check(&self, c: &Case) -> Result<Report, Failure> {
        let n = c.params.len();
        let est = DurationEstimator::new(c.params.iter().map(|(m, v)| MeanVari(*m, *v)).collect(), c.nstate);
        if let Some(times) = &c.earlier_alignment {
            let _ = est.create_with_alignment(times);
        }
        let d1 = est.create(1.0);
        ensure!(d1.len() == n, "speed1-len", "speed 1: {} durations for {} states", d1.len(), n);
        for (i, ((m, _), d)) in c.params.iter().zip(&d1).enumerate() {
            // at speed 1 nothing is added to the mean, so the rounding is exact - also on a .5 tie
            // (round = half away from zero, as in the reference implementation's (size_t)(x + 0.5))
            let ok = *d as f64 == m.round().max(1.0);
            ensure!(ok, "speed1-round", "speed 1: state {} mean {} got {} frames, expected max(round(mean),1)", i, m, d);
        }
        let f1: usize = d1.iter().sum();
        let mut rep = Report::new();
        let mut prev_total: Option<(f64, usize)> = None;
        for &s in &c.speeds {
            let d = est.create(s);
            ensure!(d.len() == n, "speed-len", "speed {}: {} durations for {} states", s, d.len(), n);
            ensure!(d.iter().all(|x| *x >= 1), "speed-floor", "speed {}: a state got 0 frames: {:?}", s, d);
            let total: usize = d.iter().sum();
            if s == 1.0 {
                ensure!(total == f1, "speed-total", "speed 1 repeated: total {} != {}", total, f1);
            } else {
                // the rounded float quotient and the exact quotient normally agree; where they differ
                // (the float division rounded across a .5 boundary) either is accepted
                let float_r = (f1 as f64 / s).round();
                let exact_r = exact_round_quotient(f1 as u64, s).map(|x| x as f64).unwrap_or(float_r);
                let (lo, hi) = (float_r.min(exact_r), float_r.max(exact_r));
                if lo != hi {
                    rep.class("float-vs-exact-rounding-differs");
                }
                let near_tie = { let q = f1 as f64 / s; ((q - q.floor()) - 0.5).abs() < 1e-9 };
                if near_tie {
                    rep.class("quotient-on-a-.5-boundary");
                }
                let e_lo = lo.max(n as f64) as usize;
                let e_hi = hi.max(n as f64) as usize;
                ensure!(
                    total == e_lo || total == e_hi,
                    "speed-total",
                    "speed {}: total {} frames, expected max(round({}/{}), {}) = {}",
                    s, total, f1, s, n, e_lo
                );
                if total == n && n > 1 {
                    rep.class("floor-all-ones");
                }
                if total != f1 {
                    rep.nontrivial = true;
                }
            }
            if let Some((ps, pt)) = prev_total {
                // non-increasing in s (ties on a .5 boundary may flip by one frame)
                let tie = round_candidates(f1 as f64 / s, 1e-9).0 != round_candidates(f1 as f64 / s, 1e-9).1
                    || round_candidates(f1 as f64 / ps, 1e-9).0 != round_candidates(f1 as f64 / ps, 1e-9).1;
                ensure!(total <= pt || tie, "speed-monotone", "total grows with speed: {} frames at {} but {} at {}", pt, ps, total, s);
            }
            prev_total = Some((s, total));
        }
        rep.class_if(c.earlier_alignment.is_some(), "after-an-alignment-request-on-the-same-estimator");
        rep.class(format!("states:{}", match n { 1 => "1", 2..=10 => "2-10", 11..=60 => "11-60", _ => "61-200" }));
        Ok(rep)
    }
}

#[derive(Debug, Clone, Serialize)]
pub struct EngineCase {
    pub voice: crate::engine_case::VoiceChoice,
    pub source: String,
    pub labels: Vec<String>,
    pub speed: f64,
}

pub struct EngineSpeed;

impl Prop for EngineSpeed {
    type Case = EngineCase;
    fn name(&self) -> String {
        "engine-speed".into()
    }
    fn rule(&self) -> String {
        "engine (generated voice 70 %, bundled / perturbed 30 %), 1..150 labels (corpus sources; long utterances so that round(F1/s) != F1 even for s close to 1; 2 %: 330..450 labels of the bundled voice at speed 0.1..0.13, i.e. 50 000..90 000 frames), speed from {1 | 1 +- 1e-6..1e-2 | log-uniform [0.25,4] | special values} set through Condition::set_speed; frames of Engine::generator (hook trajectories) == max(round(F1/s), labels*states) with F1 from the public Models::duration(); synthesize length == frames x fperiod on short cases. Non-trivial: speed != 1".into()
    }
    fn tape_len(&self, _: Tier) -> usize {
        12000
    }
    fn cases(&self, tier: Tier) -> u32 {
        tier.pick(3_000, 40_000)
    }
    fn decode(&self, t: &mut Tape, _: Tier) -> EngineCase {
        // 2 %: a chapter read slowly - several hundred labels of the bundled voice at speed
        // 0.1..0.13, 50 000..90 000 frames (frame counts beyond 16 bits)
        if t.chance(0.02) {
            let n = t.urange(330, 450);
            let (labels, src) = gen_label_lines(t, n, false);
            let speed = if t.chance(0.3) { 0.1 } else { t.uniform(0.1, 0.13) };
            return EngineCase { voice: crate::engine_case::VoiceChoice::Bundled, source: src.name().into(), labels, speed };
        }
        let n = match t.weighted(&[4, 3, 2]) {
            0 => t.urange(1, 5),
            1 => t.urange(6, 40),
            _ => t.urange(41, 150),
        };
        let (labels, src) = gen_label_lines(t, n, false);
        let voice = crate::engine_case::gen_voice_choice(t, 30, crate::voice::GenOpts { max_depth: 2, ..Default::default() });
        let speed = match t.weighted(&[1, 4, 4, 2]) {
            0 => 1.0,
            1 => {
                let d = t.log_uniform(1e-6, 1e-2);
                if t.chance(0.5) { 1.0 + d } else { 1.0 - d }
            }
            2 => t.log_uniform(0.25, 4.0),
            _ => *t.pick(&[0.25, 4.0, 0.5, 2.0, 1.4, 50.0, 1000.0, 0.999, 1.001]),
        };
        EngineCase { voice, source: src.name().into(), labels, speed }
    }
    fn check(&self, c: &EngineCase) -> Result<Report, Failure> {
        let (mut engine, _info) = crate::engine_case::build_engine(&c.voice)?;
        engine.condition.set_speed(c.speed);
        // a quarter of the cases (chosen by the utterance length): the rate was requested BEFORE the
        // condition (re)loads the voice set - load_model takes rate, frame period, thresholds from
        // the voices and leaves the caller's settings alone
        let speed_before_load = c.labels.len() % 4 == 2;
        if speed_before_load {
            let voices = engine.voices.clone();
            if engine.condition.load_model(&voices).is_err() {
                fail!("load_model", "Condition::load_model failed on the engine's own voices");
            }
        }
        let labels = match parse_lines(&c.labels) {
            Ok(l) => l,
            Err(e) => fail!("label-parse", "{}", e),
        };
        let models = Models::new(&labels, &engine.voices, engine.condition.get_interporation_weight());
        let dur = models.duration();
        let nstates = labels.len() * models.nstate();
        ensure!(dur.len() == nstates, "duration-len", "{} duration Gaussians for {} states", dur.len(), nstates);
        let f1: f64 = dur.iter().map(|MeanVari(m, _)| m.round().max(1.0)).sum();
        if f1 / c.speed > 200_000.0 {
            return Ok(Report::rejected("too-long"));
        }
        let (lo, hi) = if c.speed == 1.0 { (f1, f1) } else { round_candidates(f1 / c.speed, 1e-9) };
        // a third of the cases (chosen by the utterance length): the lines carry time stamps -
        // which mean nothing while alignment is off, the speed law is unchanged
        let stamped: Vec<String>;
        let lines: &[String] = if c.labels.len() % 3 == 1 {
            let frame_100ns = engine.condition.get_fperiod() as f64 * 1e7 / engine.condition.get_sampling_frequency() as f64;
            stamped = c.labels.iter().enumerate().map(|(i, l)| format!("{} {} {}", (i as f64 * 7.0 * frame_100ns).round(), ((i + 1) as f64 * 7.0 * frame_100ns).round(), l)).collect();
            &stamped
        } else {
            &c.labels
        };
        let g = match engine.generator(lines) {
            Ok(g) => g,
            Err(e) => fail!("generator", "generator failed: {}", e),
        };
        let frames = trajectories(&g).lf0.len();
        let e_lo = lo.max(nstates as f64) as usize;
        let e_hi = hi.max(nstates as f64) as usize;
        ensure!(
            frames == e_lo || frames == e_hi,
            "engine-speed-total",
            "speed {}: generator has {} frames, expected max(round({}/{}), {}) = {}",
            c.speed, frames, f1, c.speed, nstates, e_lo
        );
        if frames * engine.condition.get_fperiod() <= 100_000 {
            let w = g.generate_all();
            ensure!(w.len() == frames * engine.condition.get_fperiod(), "engine-length", "waveform {} samples != {} frames x {}", w.len(), frames, engine.condition.get_fperiod());
        }
        let mut rep = Report::new();
        rep.nontrivial = c.speed != 1.0;
        rep.class(c.voice.class());
        rep.class_if(frames == nstates, "floor-all-ones");
        rep.class_if(speed_before_load, "speed-set-before-load_model");
        rep.class_if(frames > 20_000, "more-than-20000-frames");
        rep.class_if(frames > 65_535, "more-than-65535-frames");
        rep.class_if(c.labels.len() % 3 == 1, "time-stamped-lines-alignment-off");
        rep.class_if((c.speed - 1.0).abs() < 1e-2 && c.speed != 1.0, "speed-near-1");
        rep.class_if((c.speed - 1.0).abs() < 1e-2 && c.speed != 1.0 && (f1 / c.speed).round() != f1, "speed-near-1-and-total-differs");
        Ok(rep)
    }
}
