//! C13 The LSP synthesis filter realises the model spectrum.

use std::f64::consts::PI;

use serde::Serialize;

use crate::dsp::{dft_logmag, lsp_logmag, lsp_to_lpc, measure_pulse, minphase_ir, tail_energy_fraction};
use crate::runner::{DynProp, Failure, Prop, Report, Tier};
use crate::tape::Tape;
use crate::{ensure, fail};

use super::c06::{gen_alpha, RATES};
use super::{no_custom, no_extra, PropertyDef};

pub fn def() -> PropertyDef {
    PropertyDef {
        id: "C13",
        level: "exploration",
        props: |_| vec![Box::new(LspSpectrum) as Box<dyn DynProp>, Box::new(LspAfterHistory) as Box<dyn DynProp>, Box::new(LspVoiceEngine) as Box<dyn DynProp>, Box::new(super::c06::AfterFrames(2)) as Box<dyn DynProp>],
        extra: no_extra,
        replay_custom: no_custom,
        assumptions: &[
            "reference A(z) = (P+Q)/2 built by polynomial multiplication of the LSP factors; model ln K - s ln|A(e^{j w~})|",
            "LSP spacing >= 1.01*pi/(4(m+1)) so that the vocoder's stability fixer is inactive",
            "the measured response (finite window) is compared with the reference minimum-phase impulse response of the model spectrum (homomorphic method, 65536-point FFT) truncated to the same window, so truncation cancels: log-magnitude within 0.001 neper (+2e-8*exp(peak-level) numerical-noise allowance) on the frequencies within 100 dB of the peak",
            "frame 2 is only used when the reference decays inside one frame (otherwise it still contains the tail of frame 1's pulse)",
        ],
    }
}

#[derive(Debug, Clone, Serialize)]
pub struct Case {
    pub rate: usize,
    pub alpha: f64,
    pub stage: usize,
    pub use_log_gain: bool,
    /// [gain or log gain, w_1..w_m]
    pub lsp: Vec<f64>,
    /// Some((stage, alpha)): immediately before the measurement ANOTHER vocoder on the same thread
    /// renders the same frequencies with this stage and alpha (history between objects)
    #[serde(default)]
    pub decoy: Option<(usize, f64)>,
    /// linear output gain of the vocoder during the measurement (the response is divided by it)
    #[serde(default = "one")]
    pub volume: f64,
}

fn one() -> f64 {
    1.0
}

pub fn gen_lsp(t: &mut Tape, m: usize) -> Vec<f64> {
    gen_lsp_kind(t, m, false)
}

/// `spread_only`: no regular and no crowded sets (used together with gains above 1e6, where the
/// rounding of the gain representation is amplified by every resonance of the filter).
pub fn gen_lsp_kind(t: &mut Tape, m: usize, spread_only: bool) -> Vec<f64> {
    // increasing frequencies with spacing >= min_gap: distribute the slack randomly
    let min_gap = 1.01 * PI / (4.0 * (m as f64 + 1.0));
    let slack = PI - (m as f64 + 1.0) * min_gap;
    // a third of the sets are crowded: most gaps stay close to the minimum and a few take the
    // slack, which gives strongly resonant (but legal) filters
    // one set in ten is REGULAR: the neutral comb i*pi/(m+1) (a flat spectrum) or the same comb
    // shifted by a fraction of its spacing (not flat at all). Other common spacings are NOT generated:
    // equally spaced sets packed to one side of the band are ill-conditioned beyond what the
    // measurement window resolves (see DESIGN.md 6.3)
    if t.chance(0.1) && !spread_only {
        let neutral = PI / (m as f64 + 1.0);
        let start = match t.weighted(&[1, 3]) {
            0 => neutral,
            _ => (1.0 + if t.chance(0.5) { t.uniform(0.02, 0.7) } else { -t.uniform(0.02, 0.7) }) * neutral,
        };
        return (0..m).map(|i| start + i as f64 * neutral).collect();
    }
    let crowded = t.chance(0.33) && !spread_only;
    let parts: Vec<f64> = (0..=m).map(|_| if crowded { t.unit().powi(6) + 0.002 } else { t.unit() + 0.05 }).collect();
    let total: f64 = parts.iter().sum();
    let mut w = Vec::with_capacity(m);
    let mut cur = 0.0;
    for p in parts.iter().take(m) {
        cur += min_gap + slack * p / total;
        w.push(cur);
    }
    w
}

pub struct LspSpectrum;

impl Prop for LspSpectrum {
    type Case = Case;
    fn name(&self) -> String {
        "lsp-spectrum".into()
    }
    fn rule(&self) -> String {
        "LSP order 2..24 (even and odd), stage 1..4, alpha in {0} u [0,0.6], linear or log gain in [0.3,3] (15 %: log-uniform in [1e-12,1e10], 5 %: in [1e8,1e10], mostly at stage 1; above 1e6 only with evenly spread sets of order <= 6), increasing LSPs with random (a third: crowded, strongly resonant; a tenth: equally spaced - the neutral comb i pi/(m+1) and the same comb shifted by 2..70 % of its spacing) spacing >= 1.01*pi/(4(m+1)); pulse response (frame 1 and 2) finite, decaying and with log-magnitude ln K - s ln|A(e^{j w~})| within 0.001 neper on the frequencies within 100 dB of the peak. Non-trivial: reference response decays inside the window".into()
    }
    fn tape_len(&self, _: Tier) -> usize {
        72
    }
    fn cases(&self, tier: Tier) -> u32 {
        tier.pick(5_000, 100_000)
    }
    fn decode(&self, t: &mut Tape, _: Tier) -> Case {
        let rate = *t.pick(RATES);
        let alpha = gen_alpha(t);
        let stage = t.urange(1, 4);
        let use_log_gain = t.chance(0.5);
        let m = match t.weighted(&[3, 5]) {
            0 => t.urange(2, 5),
            _ => t.urange(2, 24),
        };
        // incl. the exact identity values (K = 1, log gain 0) and other exactly representable gains
        // the filter is linear in K: very small and very large gains must realise the same shape
        let gain = match t.weighted(&[4, 12, 3, 1]) {
            0 => *t.pick(&[1.0, 0.5, 2.0, 0.25]),
            1 => t.log_uniform(0.3, 3.0),
            2 => t.log_uniform(1e-12, 1e10),
            // very loud frames (the filter is linear in K; guards with absolute constants are not)
            _ => t.log_uniform(1e8, 1e10),
        };
        // loud frames mostly at stage 1, where K itself (not a root of it) enters the normalisation
        let stage = if gain >= 1e8 && t.chance(0.7) { 1 } else { stage };
        // ... and only with low orders: the rounding of the gain representation (eps x K^(1/s)) is
        // amplified by every resonance of the filter; order 23 at K = 2e9 deviates by 2.6e-3 neper
        // on the unchanged tree (DESIGN.md 7), order <= 6 stays 30 times inside the tolerance
        let m = if gain > 1e6 { m.min(6) } else { m };
        let mut lsp = vec![if use_log_gain { gain.ln() } else { gain }];
        lsp.extend(gen_lsp_kind(t, m, gain > 1e6));
        let decoy = if t.chance(0.3) { Some((t.urange(1, 4), gen_alpha(t))) } else { None };
        let volume = if t.chance(0.6) { 1.0 } else { t.log_uniform(0.05, 20.0) };
        Case { rate, alpha, stage, use_log_gain, lsp, decoy, volume }
    }
    fn check(&self, c: &Case) -> Result<Report, Failure> {
        let gain = if c.use_log_gain { c.lsp[0].exp() } else { c.lsp[0] };
        let a = lsp_to_lpc(&c.lsp[1..]);
        let model = |w: f64| lsp_logmag(gain, &a, c.stage, c.alpha, w);
        if let Some((st, al)) = c.decoy {
            let mut other = c.lsp.clone();
            other[0] = if c.use_log_gain { 0.3 } else { 1.3 };
            let _ = measure_pulse(&other, st, c.use_log_gain, c.rate, al, 0.0, 1.0);
            crate::dsp::hot_decoy(&other, if c.lsp.len() % 2 == 0 { st } else { c.stage }, c.use_log_gain, c.rate, c.alpha, 0.0);
        }
        let mut m = measure_pulse(&c.lsp, c.stage, c.use_log_gain, c.rate, c.alpha, 0.0, c.volume);
        for v in m.frame1.iter_mut().chain(m.frame2.iter_mut()).chain(m.frame2_full.iter_mut()) {
            *v /= c.volume;
        }
        // reference minimum-phase response; must be free of time aliasing on the FFT grid
        let n = 65536;
        let ir = minphase_ir(model, n);
        if tail_energy_fraction(&ir, n / 2) > 1e-24 {
            return Ok(Report::rejected("reference-longer-than-fft"));
        }
        let k = 129;
        let grid: Vec<(f64, f64)> = (0..k).map(|i| { let w = PI * i as f64 / (k - 1) as f64; (w, model(w)) }).collect();
        let peak = grid.iter().map(|x| x.1).fold(f64::NEG_INFINITY, f64::max);
        let floor = peak - 100.0 / 20.0 * std::f64::consts::LN_10;
        let mut rep = Report::new();
        let decayed = tail_energy_fraction(&ir, m.window) < 1e-10;
        rep.class(if decayed { "reference-decays-in-window" } else { "reference-truncated" });
        // frame 1: response to the pulse at sample 0; frame 2: the tail of that response plus the
        // response to the second pulse (superposition; the coefficients are stationary)
        let fp = m.fperiod;
        let exp1: Vec<f64> = ir[..fp].to_vec();
        let exp2: Vec<f64> = (0..fp).map(|i| ir[fp + i] + if i >= m.pulse2 { ir[i - m.pulse2] } else { 0.0 }).collect();
        for (name, h, r) in [("frame1", &m.frame1, &exp1), ("frame2", &m.frame2_full, &exp2)] {
            if let Some(i) = h.iter().position(|x| !x.is_finite()) {
                fail!("lsp-spectrum", "{}: non-finite sample at {} of the pulse response (well-separated increasing LSPs must give a decaying, finite response)", name, i);
            }
            ensure!(h.len() == r.len(), "lsp-spectrum", "{}: frame length {} != {}", name, h.len(), r.len());
            // time domain: recorded, not deciding - the property bounds the log-magnitude (0.001 neper),
            // and for strongly resonant (crowded) sets the implementation's own rounding noise in the
            // coefficient conversion is amplified to 1e-4 of the peak in the time domain while the
            // spectrum stays within 1e-4 neper (see DESIGN.md section 7)
            let scale = r.iter().fold(0.0f64, |a, x| a.max(x.abs()));
            let dmax = h.iter().zip(r).fold(0.0f64, |a, (x, y)| a.max((x - y).abs()));
            rep.metric("max_time_domain_error_rel", dmax / scale);
            rep.class_if(dmax > 1e-6 * scale, "time-domain-error>1e-6-of-peak");
            // "decaying": when the reference has died out inside the window, so has the response
            if decayed && name == "frame1" {
                let q = h.len() - h.len() / 4;
                let tail: f64 = h[q..].iter().map(|x| x * x).sum();
                let total: f64 = h.iter().map(|x| x * x).sum();
                // ... to the degree the model response itself has: its own last quarter may still hold
                // a few 1e-6 of the energy while next to nothing (< 1e-10) lies beyond the window
                let rtail: f64 = r[q..].iter().map(|x| x * x).sum();
                let rtotal: f64 = r.iter().map(|x| x * x).sum();
                let allowed = (1e-6f64).max(10.0 * rtail / rtotal);
                ensure!(tail <= allowed * total, "lsp-spectrum", "{}: the response does not decay: {:e} of its energy lies in the last quarter of the window, the model response has {:e} there and nothing beyond (order {}, stage {}, alpha {})", name, tail / total, rtail / rtotal, c.lsp.len() - 1, c.stage, c.alpha);
            }
            // spectrum: both truncated to the same window, so truncation cancels
            let mut worst = (0.0f64, 0.0f64);
            for (w, level) in &grid {
                if *level < floor {
                    continue;
                }
                // the generalized-cepstral gain term is (K^gamma - 1)/gamma with gamma = -1/s: recovering
                // K^(-1/s) from it costs log10(K^(1/s)) digits, i.e. a relative error of eps x K^(1/s)
                // per conversion (4e-5 at K = 4e11, stage 1; a deviation of 1.1e-3 neper was measured
                // there on the unchanged tree). The tolerance carries that conditioning term; it is
                // below 1e-5 neper for K^(1/s) < 1e9
                let tol = 0.001 + 2e-8 * (peak - level).exp() + 100.0 * f64::EPSILON * gain.powf(1.0 / c.stage as f64);
                let e = (dft_logmag(h, *w) - dft_logmag(r, *w)).abs();
                if e / tol > worst.0 || e.is_nan() {
                    worst = (e / tol, *w);
                }
                rep.metric("max_logmag_error_neper", e);
            }
            ensure!(
                worst.0 <= 1.0,
                "lsp-spectrum",
                "{}: log-magnitude deviates from ln K - s ln|A(e^(j w~))| by {:.2} x the 0.001-neper tolerance at w={:.3} (order {}, stage {}, alpha {}, log gain {})",
                name, worst.0, worst.1, c.lsp.len() - 1, c.stage, c.alpha, c.use_log_gain
            );
        }
        rep.nontrivial = true;
        rep.class(format!("stage:{}", c.stage));
        rep.class(if (c.lsp.len() - 1) % 2 == 0 { "order:even" } else { "order:odd" });
        rep.class_if(c.use_log_gain, "log-gain");
        rep.class_if(gain == 1.0, "unit-gain");
        rep.class_if(!(1e-2..=1e2).contains(&gain), "extreme-gain");
        rep.metric("peak_output_magnitude", m.frame1.iter().fold(0.0f64, |a, x| a.max(x.abs())));
        rep.class_if(c.alpha == 0.0, "alpha=0");
        rep.class_if(c.decoy.is_some(), "after-another-vocoder-with-the-same-frequencies");
        rep.class_if(c.volume != 1.0, "non-default-volume");
        Ok(rep)
    }
}

#[derive(Debug, Clone, Serialize)]
pub struct HistCase {
    pub base: Case,
    pub mode: String,
    pub history: Vec<Vec<f64>>,
}

/// The response must reflect the CURRENT frame's parameters whatever frames came before.
pub struct LspAfterHistory;

impl Prop for LspAfterHistory {
    type Case = HistCase;
    fn name(&self) -> String {
        "lsp-after-history".into()
    }
    fn rule(&self) -> String {
        "as lsp-spectrum (rates 16k/48k, orders 2..12), but the vocoder runs with frame period 1 and the measured stationary spectrum is preceded by a generated history: none | up to 40 frames of a spectrum that differs only in a subset of components (gain only, first frequency only, ..) | a slow linear drift of up to 1200 frames with per-frame steps 1e-9..1e-5; the response to the second pulse (hundreds of stationary frames later) must equal the response of the same vocoder without history (1e-6 of its peak) and realise the final spectrum (0.001 neper). Non-trivial: a non-empty history".into()
    }
    fn tape_len(&self, _: Tier) -> usize {
        128
    }
    fn cases(&self, tier: Tier) -> u32 {
        tier.pick(600, 12_000)
    }
    fn decode(&self, t: &mut Tape, _: Tier) -> HistCase {
        let rate = *t.pick(&[16000usize, 48000]);
        let alpha = gen_alpha(t);
        let stage = t.urange(1, 4);
        let use_log_gain = t.chance(0.5);
        let m = t.urange(2, 12);
        let gain = if t.chance(0.2) { 1.0 } else { t.log_uniform(0.3, 3.0) };
        let mut lsp = vec![if use_log_gain { gain.ln() } else { gain }];
        lsp.extend(gen_lsp(t, m));
        let k2 = rate / 20;
        let (history, mode) = crate::dsp::gen_spectrum_history(t, &lsp, k2 / 2, true);
        HistCase { base: Case { rate, alpha, stage, use_log_gain, lsp, decoy: None, volume: 1.0 }, mode, history }
    }
    fn check(&self, c: &HistCase) -> Result<Report, Failure> {
        let b = &c.base;
        let gain = if b.use_log_gain { b.lsp[0].exp() } else { b.lsp[0] };
        let a = lsp_to_lpc(&b.lsp[1..]);
        let model = |w: f64| lsp_logmag(gain, &a, b.stage, b.alpha, w);
        let n = 65536;
        let ir = minphase_ir(model, n);
        if tail_energy_fraction(&ir, n / 2) > 1e-24 {
            return Ok(Report::rejected("reference-longer-than-fft"));
        }
        let k2 = (b.rate / 20).max(2);
        let quiet = k2.saturating_sub(c.history.len());
        // the first pulse's response (rendered through the history) must be gone at the second pulse
        if tail_energy_fraction(&ir, quiet.min(k2 / 2)) > 1e-16 {
            return Ok(Report::rejected("reference-not-decayed-before-second-pulse"));
        }
        let window = k2 - 4;
        let (h, _) = crate::dsp::measure_after_history(&c.history, &b.lsp, b.stage, b.use_log_gain, b.rate, b.alpha, 0.0, window);
        if let Some(i) = h.iter().position(|x| !x.is_finite()) {
            fail!("lsp-spectrum", "non-finite sample at {} of the pulse response after a history ({})", i, c.mode);
        }
        // (a) history independence proper: the same vocoder without any history gives the same
        // response (both sides carry the implementation's own rounding noise identically)
        let (h0, _) = crate::dsp::measure_after_history(&[], &b.lsp, b.stage, b.use_log_gain, b.rate, b.alpha, 0.0, window);
        let scale = h0.iter().fold(0.0f64, |a, x| a.max(x.abs()));
        let dmax = h.iter().zip(&h0).fold(0.0f64, |a, (x, y)| a.max((x - y).abs()));
        let mut rep = Report::new();
        rep.metric("max_time_domain_error_rel", dmax / scale);
        ensure!(
            dmax <= 1e-6 * scale,
            "lsp-history-dependence",
            "after the history '{}' ({} frames) the pulse response differs from the response of the same stationary frame without history by {:e} of its peak (order {}, stage {}, alpha {}, log gain {})",
            c.mode, c.history.len(), dmax / scale, b.lsp.len() - 1, b.stage, b.alpha, b.use_log_gain
        );
        // (b) and it realises the CURRENT frame's spectrum (the property's tolerance)
        let r = &ir[..h.len()];
        let k = 65;
        let grid: Vec<(f64, f64)> = (0..k).map(|i| { let w = PI * i as f64 / (k - 1) as f64; (w, model(w)) }).collect();
        let peak = grid.iter().map(|x| x.1).fold(f64::NEG_INFINITY, f64::max);
        let floor = peak - 100.0 / 20.0 * std::f64::consts::LN_10;
        for (w, level) in &grid {
            if *level < floor {
                continue;
            }
            let tol = 0.001 + 2e-8 * (peak - level).exp();
            let e = (dft_logmag(&h, *w) - dft_logmag(r, *w)).abs();
            rep.metric("max_logmag_error_neper", e);
            ensure!(e <= tol || e.is_nan() && false, "lsp-history-dependence", "after the history '{}' the log-magnitude deviates from the current frame's ln K - s ln|A| by {:e} neper at w={:.3} (order {}, stage {}, alpha {})", c.mode, e, w, b.lsp.len() - 1, b.stage, b.alpha);
        }
        rep.nontrivial = !c.history.is_empty();
        rep.class(format!("history:{}", c.mode.split(':').next().unwrap_or("")));
        Ok(rep)
    }
}

/// The statement is about a VOICE whose spectrum stream is LSP: the stage, the gain convention and
/// alpha that the vocoder is run with come from the voice file. This sub-check closes the gap between
/// the file and the vocoder-level sub-checks above: for generated LSP voice files the engine's
/// waveform must equal the rendering of its own trajectories by a Vocoder built from the values the
/// harness WROTE into the file (C01's differential, restricted to LSP voices and run on every C13 run).
pub struct LspVoiceEngine;

impl Prop for LspVoiceEngine {
    type Case = super::c01::Case;
    fn name(&self) -> String {
        "lsp-voice-engine".into()
    }
    fn rule(&self) -> String {
        "generated LSP voice files (stage 1..4, linear / log gain, any option order, 2/3 streams, 1..7 states), 0..12 labels, condition inside the envelope: Engine::synthesize == Vocoder(stage, log-gain flag, alpha as written in the file) applied to the generator's trajectories (1e-9), plus all of C01's clauses. Non-trivial: >= 2 labels".into()
    }
    fn tape_len(&self, _: Tier) -> usize {
        12000
    }
    fn cases(&self, tier: Tier) -> u32 {
        tier.pick(600, 20_000)
    }
    fn decode(&self, t: &mut Tape, _: Tier) -> Self::Case {
        let base = crate::engine_case::gen_engine_case(t, 12, 0, false, crate::voice::GenOpts { lsp: Some(true), ..Default::default() });
        super::c01::Case { base, alignment: false, times: None, prior_voice: None }
    }
    fn check(&self, c: &Self::Case) -> Result<Report, Failure> {
        super::c01::Synthesis.check(c)
    }
}
