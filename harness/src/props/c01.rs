//! C01 Synthesis is total and frame-exact on every supported input.

use std::f64::consts::PI;

use serde::Serialize;

use jbonsai::duration::DurationEstimator;
use jbonsai::label::Labels;
use jbonsai::mlpg_adjust::MlpgAdjust;
use jbonsai::model::Models;
use jbonsai::Engine;

use crate::dsp::{mc2b, mcep_logmag};
use crate::engine_case::{build_engine, gen_engine_case, EngineCase, VoiceInfo, DB, HALF_TONE};
use crate::engine_util::{render, stream_lengths, trajectories, RenderParams, Trajectories};
use crate::runner::{DynProp, Failure, Prop, Report, Tier};
use crate::tape::Tape;
use crate::util::catch;
use crate::voice::GenOpts;
use crate::{ensure, fail};

use super::c09::{gen_text_times, timed_lines};
use super::{no_custom, no_extra, PropertyDef};

pub fn def() -> PropertyDef {
    PropertyDef {
        id: "C01",
        level: "exploration",
        props: |_| vec![Box::new(Synthesis) as Box<dyn DynProp>],
        extra: no_extra,
        replay_custom: no_custom,
        assumptions: &[
            "expected frame count F = sum of DurationEstimator::{create, create_with_alignment} on the public Models::duration() of the same engine and labels (the estimator itself is decided by C08/C09, the trees by C04)",
            "stable-range predicate: max over a 129-point grid of |log H(w) - b0| <= 4 per generated frame after the (1+beta) scaling of orders >= 2 (mel-cepstral voices); strictly increasing line spectral frequencies in (0,pi), positive gain and beta = 0 (LSP voices)",
            "a non-finite sample is accepted only when the predicate fails on some frame and an earlier finite sample exceeds 1e100",
            "structurally random labels are used for the no-panic / length clauses only",
        ],
    }
}

#[derive(Debug, Clone, Serialize)]
pub struct Case {
    pub base: EngineCase,
    pub alignment: bool,
    pub times: Option<Vec<Option<(f64, f64)>>>,
    /// Some(two_streams): the Condition was first loaded for ANOTHER voice (a 2- or 3-stream
    /// fixture with other rates, states and options) and then for this one
    #[serde(default)]
    pub prior_voice: Option<bool>,
}

/// Two small generated voices (2 and 3 streams) that serve as "the voice loaded before".
/// A voice whose spectrum options set EVERY voice-derived hidden setting away from its default
/// (LSP, GAMMA=3, LN_GAIN=1, ALPHA=0.37): whatever a later load_model does not reset shows.
pub fn prior_lsp_log_gain_set() -> Result<jbonsai::model::VoiceSet, Failure> {
    use std::sync::{Arc, OnceLock};
    static V: OnceLock<Option<Arc<jbonsai::model::Voice>>> = OnceLock::new();
    let v = V.get_or_init(|| {
        let words: Vec<u32> = (0..6000u32).map(|j| (crate::util::hash64(&(7u32, j, 0xC03u32)) >> 16) as u32).collect();
        let mut t = Tape::new(&words);
        let mut spec = crate::voice::gen_voice(&mut t, GenOpts { max_depth: 2, lsp: Some(true), allow_two_streams: false, ..GenOpts::default() });
        spec.stage = 3;
        spec.use_log_gain = true;
        spec.alpha = 0.37;
        spec.streams[0].options = vec!["LN_GAIN=1".into(), "GAMMA=3".into(), "ALPHA=0.37".into()];
        crate::engine_case::load_spec_voice(&spec).ok()
    });
    let pick = v.clone().ok_or_else(|| Failure::new("harness", "no LSP prior-voice fixture"))?;
    jbonsai::model::VoiceSet::new(vec![pick]).map_err(|e| Failure::new("voiceset", e.to_string()))
}

pub fn prior_voice_set(two_streams: bool) -> Result<jbonsai::model::VoiceSet, Failure> {
    use std::sync::{Arc, OnceLock};
    static V: OnceLock<Vec<Arc<jbonsai::model::Voice>>> = OnceLock::new();
    let v = V.get_or_init(|| {
        let mut out = Vec::new();
        for want_two in [true, false] {
            for seed in 0u32..200 {
                let words: Vec<u32> = (0..6000u32).map(|j| (crate::util::hash64(&(seed, j, 0xC01u32)) >> 16) as u32).collect();
                let mut t = Tape::new(&words);
                let spec = crate::voice::gen_voice(&mut t, GenOpts { max_depth: 2, ..GenOpts::default() });
                if (spec.streams.len() == 2) == want_two {
                    if let Ok(v) = crate::engine_case::load_spec_voice(&spec) {
                        out.push(v);
                        break;
                    }
                }
            }
        }
        out
    });
    let pick = v.get(if two_streams { 0 } else { 1 }).cloned().ok_or_else(|| Failure::new("harness", "no prior-voice fixture"))?;
    jbonsai::model::VoiceSet::new(vec![pick]).map_err(|e| Failure::new("voiceset", e.to_string()))
}

/// max over a grid of |log H - b0| for a mel-cepstrum after postfilter scaling.
pub fn frame_shape(c: &[f64], alpha: f64, beta: f64) -> f64 {
    let mut cc = c.to_vec();
    if beta > 0.0 {
        for x in cc.iter_mut().skip(2) {
            *x *= 1.0 + beta;
        }
    }
    let b0 = mc2b(&cc, alpha)[0];
    (0..129)
        .map(|k| (mcep_logmag(&cc, alpha, PI * k as f64 / 128.0) - b0).abs())
        .fold(0.0, f64::max)
}

pub fn stable_predicate(info: &VoiceInfo, tr: &Trajectories, alpha: f64, beta: f64) -> bool {
    if info.stage == 0 {
        tr.spectrum.iter().all(|f| f.iter().all(|x| x.is_finite()) && frame_shape(f, alpha, beta) <= 4.0)
    } else {
        if beta > 0.0 {
            return false;
        }
        tr.spectrum.iter().all(|f| {
            let gain_ok = if info.use_log_gain { f[0].is_finite() && f[0].abs() < 50.0 } else { f[0] > 1e-6 && f[0] < 1e6 };
            gain_ok && f[1..].windows(2).all(|w| w[1] > w[0]) && f[1] > 0.0 && f[f.len() - 1] < PI
        })
    }
}

pub fn check_finiteness(wave: &[f64], stable: bool) -> Result<(), Failure> {
    let mut peak = 0.0f64;
    for (i, x) in wave.iter().enumerate() {
        if !x.is_finite() {
            ensure!(!stable, "nonfinite-in-stable-range", "sample {} is {} although every generated frame is inside the stable range of the synthesis filter", i, x);
            ensure!(peak > 1e100, "nonfinite-out-of-nothing", "sample {} is {} but no earlier sample exceeded 1e100 (largest earlier magnitude {:e})", i, x, peak);
            return Ok(());
        }
        peak = peak.max(x.abs());
    }
    Ok(())
}

/// Frame count and per-state durations the engine must use, via the public API.
pub fn expected_durations(engine: &Engine, lines: &[String], alignment: bool) -> Result<(Vec<usize>, usize, usize), Failure> {
    let c = &engine.condition;
    let labels = match Labels::load_from_strings(c.get_sampling_frequency(), c.get_fperiod(), lines) {
        Ok(l) => l,
        Err(e) => fail!("label-load", "well-formed labels rejected: {}", e),
    };
    let models = Models::new(labels.labels(), &engine.voices, c.get_interporation_weight());
    let nstate = models.nstate();
    let est = DurationEstimator::new(models.duration(), nstate);
    let d = if alignment { est.create_with_alignment(labels.times()) } else { est.create(c.get_speed()) };
    Ok((d, nstate, labels.labels().len()))
}

/// Trajectories recomputed through the public Models + MlpgAdjust with the documented wiring.
pub fn public_trajectories(engine: &Engine, lines: &[String], durations: &[usize]) -> Result<Trajectories, Failure> {
    let c = &engine.condition;
    let labels = match Labels::load_from_strings(c.get_sampling_frequency(), c.get_fperiod(), lines) {
        Ok(l) => l,
        Err(e) => fail!("label-load", "well-formed labels rejected: {}", e),
    };
    let models = Models::new(labels.labels(), &engine.voices, c.get_interporation_weight());
    let spectrum = MlpgAdjust::new(c.get_gv_weight(0), c.get_msd_threshold(0), models.model_stream(0)).create(durations);
    let mut ms = models.model_stream(1);
    // the pitch shift, restated: h x ln2/12 is added to the static log-F0 mean and the sum is kept
    // inside ln 20 .. ln 20000; with h = 0 the Gaussians are handed over untouched
    let h = c.get_additional_half_tone();
    if h != 0.0 {
        let shift = h * (std::f64::consts::LN_2 / 12.0);
        let moved: Vec<_> = ms
            .stream
            .iter()
            .cloned()
            .map(|(mut p, w)| {
                p[0].0 = (p[0].0 + shift).clamp(20f64.ln(), 20000f64.ln());
                (p, w)
            })
            .collect();
        ms.stream = jbonsai::model::StreamParameter::new(moved);
    }
    let lf0 = MlpgAdjust::new(c.get_gv_weight(1), c.get_msd_threshold(1), ms).create(durations);
    let lpf = if engine.voices.global_metadata().num_streams > 2 {
        MlpgAdjust::new(c.get_gv_weight(2), c.get_msd_threshold(2), models.model_stream(2)).create(durations)
    } else {
        vec![vec![]; lf0.len()]
    };
    Ok(Trajectories { spectrum, lf0, lpf })
}

pub fn traj_equal(a: &Trajectories, b: &Trajectories) -> Option<String> {
    for (name, x, y) in [("spectrum", &a.spectrum, &b.spectrum), ("log-F0", &a.lf0, &b.lf0), ("low-pass", &a.lpf, &b.lpf)] {
        if x.len() != y.len() {
            return Some(format!("{}: {} vs {} frames", name, x.len(), y.len()));
        }
        for (t, (fx, fy)) in x.iter().zip(y).enumerate() {
            if fx.len() != fy.len() {
                return Some(format!("{} frame {}: {} vs {} values", name, t, fx.len(), fy.len()));
            }
            for (k, (vx, vy)) in fx.iter().zip(fy).enumerate() {
                if vx.to_bits() != vy.to_bits() && !(vx.is_nan() && vy.is_nan()) {
                    return Some(format!("{} frame {} dim {}: {:e} vs {:e}", name, t, k, vx, vy));
                }
            }
        }
    }
    None
}

/// Like `traj_equal` but with a relative tolerance (an equivalent re-ordering of floating-point
/// operations inside the engine must not raise an alarm; a wiring error is orders of magnitude larger).
pub fn traj_close(a: &Trajectories, b: &Trajectories, tol: f64) -> Option<String> {
    for (name, x, y) in [("spectrum", &a.spectrum, &b.spectrum), ("log-F0", &a.lf0, &b.lf0), ("low-pass", &a.lpf, &b.lpf)] {
        if x.len() != y.len() {
            return Some(format!("{}: {} vs {} frames", name, x.len(), y.len()));
        }
        for (t, (fx, fy)) in x.iter().zip(y).enumerate() {
            if fx.len() != fy.len() {
                return Some(format!("{} frame {}: {} vs {} values", name, t, fx.len(), fy.len()));
            }
            for (k, (vx, vy)) in fx.iter().zip(fy).enumerate() {
                let same = vx == vy || (vx.is_nan() && vy.is_nan()) || (!vx.is_finite() && !vy.is_finite());
                let nodata = *vx == -1e10 || *vy == -1e10;
                if !same && (nodata || (vx - vy).abs() > tol * vx.abs().max(vy.abs()).max(1e-6)) {
                    return Some(format!("{} frame {} dim {}: {:e} vs {:e}", name, t, k, vx, vy));
                }
            }
        }
    }
    None
}

pub struct Synthesis;

impl Prop for Synthesis {
    type Case = Case;
    fn name(&self) -> String {
        "synthesis".into()
    }
    fn rule(&self) -> String {
        "voice in {generated (2/3 streams, MCP or LSP stage 1..4, 1..7 states, window sets) 85 % | bundled | PDF-perturbed bundled}, 0..24 labels from {consecutive | shuffled | recombined | structurally random}, condition inside the envelope (each scalar default/edge/uniform 3:2:5; rate and frame-period overrides), alignment off or on with generated times (1 %: frame count pinned by the last end stamp to 2^k or 2^k+-1 with a power-of-two frame period, i.e. 2^16 / 2^20 samples); oracle: Ok, length == fperiod x F, F >= labels x states with every state >= 1, empty -> empty, finiteness w.r.t. the stable-range predicate, waveform == harness rendering of the hook trajectories, trajectories == public Models + MlpgAdjust recomputation (1e-9). Non-trivial: >= 2 labels and (non-default condition or non-bundled voice)".into()
    }
    fn tape_len(&self, _: Tier) -> usize {
        12000
    }
    fn cases(&self, tier: Tier) -> u32 {
        tier.pick(2_000, 80_000)
    }
    fn decode(&self, t: &mut Tape, _: Tier) -> Case {
        // 1 %: an utterance whose size is PINNED through the alignment: the end stamp of the last label
        // makes the frame count F a power of two (or one beside it) and the frame-period override is a
        // power of two as well, so that F x fperiod is exactly 2^16 or 2^20 samples or one frame off
        if t.chance(0.01) {
            let n = t.urange(2, 5);
            let (labels, _) = crate::corpus::gen_label_lines(t, n, false);
            let (fp, f_log2) = *t.pick(&[(256usize, 12u32), (256, 8), (128, 13), (128, 9), (64, 14), (64, 10), (16, 12), (240, 12), (240, 8)]);
            let frames = ((1usize << f_log2) as i64 + *t.pick(&[0i64, 0, 0, -1, 1])) as f64;
            let mut cond = crate::engine_case::Cond::default_for(3);
            cond.fperiod = Some(fp);
            // 100 ns units per frame at the bundled voice's 48 kHz
            let frame_100ns = fp as f64 * 1e7 / 48000.0;
            let mut times: Vec<Option<(f64, f64)>> = vec![None; n];
            times[n - 1] = Some((-1.0, frames * frame_100ns));
            let base = crate::engine_case::EngineCase { voice: crate::engine_case::VoiceChoice::Bundled, source: "pinned-size".into(), labels, cond };
            return Case { base, alignment: true, times: Some(times), prior_voice: None };
        }
        let base = gen_engine_case(t, 24, 12, true, GenOpts::default());
        let alignment = t.chance(0.25);
        let times = if alignment && t.chance(0.7) && !base.labels.is_empty() {
            let (rate0, fp0, nstate) = match base.voice.base_spec() {
                Some(v) => (v.sampling_frequency, v.frame_period, v.num_states),
                None => (48000, 240, 5),
            };
            let rate = base.cond.rate.unwrap_or(rate0);
            let fp = base.cond.fperiod.unwrap_or(fp0);
            let frame_100ns = fp as f64 * 1e7 / rate as f64;
            let typical = nstate as f64 * t.log_uniform(0.5, 4.0);
            Some(gen_text_times(t, base.labels.len(), frame_100ns, typical, 5.9e9))
        } else {
            None
        };
        let prior_voice = if t.chance(0.15) { Some(t.chance(0.5)) } else { None };
        Case { base, alignment, times, prior_voice }
    }
    fn check(&self, c: &Case) -> Result<Report, Failure> {
        let (mut engine, info) = build_engine(&c.base.voice)?;
        if let Some(two) = c.prior_voice {
            // (three-stream prior: every other case uses the LSP / log-gain fixture)
            let prior = if !two && c.base.labels.len() % 2 == 0 { prior_lsp_log_gain_set()? } else { prior_voice_set(two)? };
            let mut cond = jbonsai::Condition::default();
            if let Err(e) = cond.load_model(&prior) {
                fail!("load-model", "Condition::load_model failed on a valid voice: {}", e);
            }
            match catch(|| cond.load_model(&engine.voices).map(|_| cond)) {
                Ok(Ok(mut cond)) => {
                    // the interpolation weights of voice sets were set by build_engine
                    *cond.get_interporation_weight_mut() = engine.condition.get_interporation_weight().clone();
                    engine = Engine::new(engine.voices.clone(), cond);
                }
                Ok(Err(e)) => fail!("load-model", "Condition::load_model failed on a valid voice after another voice: {}", e),
                Err(p) => fail!(p.signature(), "Condition::load_model panicked: {}", p.msg),
            }
        }
        c.base.cond.apply(&mut engine);
        engine.condition.set_phoneme_alignment_flag(c.alignment);
        let lines = match &c.times {
            Some(t) => timed_lines(&c.base.labels, t),
            None => c.base.labels.clone(),
        };
        let fp = engine.condition.get_fperiod();
        // (2)(3): expected frames through the public API
        let (durations, nstate, nlabels) = expected_durations(&engine, &lines, c.alignment)?;
        let f: usize = durations.iter().sum();
        let pinned = c.base.source == "pinned-size";
        if (f > 8000 && !(pinned && f <= 17000)) || f * fp > 4_200_000 {
            return Ok(Report::rejected("too-long"));
        }
        ensure!(durations.len() == nlabels * nstate && durations.iter().all(|d| *d >= 1), "state-floor", "durations {:?}: every state of every label must last >= 1 frame", durations);
        // (1): total, no panic
        let wave = match catch(|| engine.synthesize(lines.as_slice())) {
            Ok(Ok(w)) => w,
            Ok(Err(e)) => fail!("synthesize-error", "synthesize failed on well-formed labels: {}", e),
            Err(p) => fail!(p.signature(), "synthesize panicked at {}:{}: {}", p.file, p.line, p.msg),
        };
        ensure!(
            wave.len() == fp * f,
            "length",
            "waveform has {} samples, expected frame period {} x {} frames (labels {}, states {})",
            wave.len(), fp, f, nlabels, nstate
        );
        ensure!(f >= nlabels * nstate, "state-floor", "{} frames for {} labels x {} states", f, nlabels, nstate);
        if nlabels == 0 {
            ensure!(wave.is_empty(), "empty", "empty label list produced {} samples", wave.len());
        }
        // hook trajectories
        let g = match catch(|| engine.generator(lines.as_slice())) {
            Ok(Ok(g)) => g,
            Ok(Err(e)) => fail!("synthesize-error", "generator failed: {}", e),
            Err(p) => fail!(p.signature(), "generator panicked: {}", p.msg),
        };
        let tr = trajectories(&g);
        ensure!(tr.lf0.len() == f && tr.spectrum.len() == f && tr.lpf.len() == f, "length", "trajectories have {}/{}/{} frames, expected {}", tr.spectrum.len(), tr.lf0.len(), tr.lpf.len(), f);
        let cond = &engine.condition;
        if info.stage != 0 && !info.use_log_gain && tr.spectrum.iter().any(|f| !(f[0] > 0.0)) {
            // a non-positive linear LSP gain is not a spectrum at all (K^gamma is undefined):
            // outside the domain of both finiteness clauses
            return Ok(Report::rejected("lsp-nonpositive-gain"));
        }
        let stable = stable_predicate(&info, &tr, cond.get_alpha(), cond.get_beta());
        check_finiteness(&wave, stable)?;
        let random = crate::engine_case::source_is_random(&c.base.source);
        // (5a) trajectories == public recomputation with the documented wiring
        let publ = public_trajectories(&engine, &lines, &durations)?;
        if let Some(d) = traj_close(&tr, &publ, 1e-9) {
            fail!("wiring-trajectories", "generator trajectories differ from Models + MlpgAdjust with (gv_weight[i], msd_threshold[i], stream i, half tone on stream 1): {}", d);
        }
        // (5b) waveform == harness rendering
        let (nmcp, nlpf) = stream_lengths(&engine);
        let volume = (c.base.cond.volume_db * DB).exp();
        let p = RenderParams {
            nmcp,
            nlpf,
            stage: info.stage,
            use_log_gain: info.use_log_gain,
            rate: cond.get_sampling_frequency(),
            alpha: cond.get_alpha(),
            beta: cond.get_beta(),
            volume: 1.0,
            fperiod: fp,
        };
        let mine = render(&p, &tr);
        ensure!(mine.len() == wave.len(), "wiring-waveform", "harness rendering has {} samples, engine {}", mine.len(), wave.len());
        let scale = mine.iter().filter(|x| x.is_finite()).fold(0.0f64, |m, x| m.max(x.abs())) * volume;
        for (i, (a, b)) in wave.iter().zip(&mine).enumerate() {
            let want = b * volume;
            // same Vocoder code on both sides: agreement is normally bitwise; the tolerance only
            // keeps an equivalent re-ordering inside the engine from raising an alarm
            let ok = (a.is_nan() && want.is_nan()) || *a == want || (!a.is_finite() && !want.is_finite()) || (a - want).abs() <= 1e-9 * want.abs().max(1e-6 * scale);
            ensure!(
                ok,
                "wiring-waveform",
                "sample {}: engine {:e} vs {:e} rendered by a Vocoder built from (stage {}, log gain {}, rate {}, alpha {}, beta {}, volume {} dB, fperiod {}) and the generator's trajectories",
                i, a, want, info.stage, info.use_log_gain, p.rate, p.alpha, p.beta, c.base.cond.volume_db, fp
            );
        }
        let _ = HALF_TONE;
        let mut rep = Report::new();
        let nonbundled = !matches!(c.base.voice, crate::engine_case::VoiceChoice::Bundled);
        rep.nontrivial = nlabels >= 2 && (nonbundled || !c.base.cond.is_default() || c.alignment);
        rep.class(c.base.voice.class());
        rep.class(format!("source:{}", c.base.source));
        rep.class(if stable { "stable-range:yes" } else { "stable-range:no" });
        if c.prior_voice.is_some() {
            // and nothing of the earlier voice may be left: same waveform as a fresh engine
            let (mut fresh, _) = build_engine(&c.base.voice)?;
            c.base.cond.apply(&mut fresh);
            fresh.condition.set_phoneme_alignment_flag(c.alignment);
            let w2 = fresh.synthesize(lines.as_slice()).map_err(|e| Failure::new("synthesize-error", e.to_string()))?;
            let same = w2.len() == wave.len() && w2.iter().zip(&wave).all(|(a, b)| a.to_bits() == b.to_bits() || (a.is_nan() && b.is_nan()));
            ensure!(same, "reload-leftover", "an engine whose condition was loaded for another voice first renders differently from a fresh engine with the same settings");
            rep.class("condition-loaded-for-another-voice-first");
        }
        rep.class_if(c.alignment, "alignment:on");
        rep.class_if(c.times.is_some(), "alignment:with-times");
        rep.class_if(nlabels == 0, "empty");
        rep.class_if(random, "random-labels");
        rep.class_if(wave.iter().any(|x| !x.is_finite()), "runaway-nonfinite");
        rep.class(format!("nstate:{}", nstate));
        Ok(rep)
    }
}
