//! C03 Synthesis is a deterministic pure function, safe to share across threads.

use std::sync::Barrier;

use serde::Serialize;
use serde_json::json;

use jbonsai::Engine;

use crate::corpus::gen_label_lines;
use crate::engine_case::{build_engine, gen_cond, gen_voice_choice, Cond, VoiceChoice};
use crate::engine_util::bits_equal;
use crate::runner::{DynProp, Failure, Prop, Report, Session, Tier};
use crate::tape::Tape;
use crate::util::{catch, verif_dir};
use crate::voice::GenOpts;
use crate::{ensure, fail};

use super::c20::{special_f64, special_usize};
use super::{no_custom, PropertyDef};

pub fn def() -> PropertyDef {
    PropertyDef {
        id: "C03",
        level: "exploration",
        props: |_| vec![Box::new(SharedEngine) as Box<dyn DynProp>],
        extra,
        replay_custom: no_custom,
        assumptions: &[
            "the OS owns the thread interleaving: the harness only randomises start offsets (barrier + per-thread spin count from the case); a race with a very narrow window can be missed and a failing schedule is not replayable (the replay re-runs the same jobs)",
            "Engine: Send + Sync + Clone and SpeechGenerator: Send are checked at compile time by the probe crate harness/probes/send_sync (cargo check); the threaded check itself wraps &Engine in a ForceSync newtype so that it can observe a data race introduced with interior mutability",
            "reference = the same jobs run sequentially on a private clone of the engine",
        ],
    }
}

struct ForceSync<'a>(&'a Engine);
// SAFETY: deliberately unchecked - the property under test is that sharing is safe.
unsafe impl Sync for ForceSync<'_> {}
unsafe impl Send for ForceSync<'_> {}

#[derive(Debug, Clone, Serialize)]
pub struct Job {
    pub labels: Vec<String>,
    /// 0 = synthesize; n > 0 = generator consumed in chunks of n frames, then generate_all
    pub chunk: usize,
    pub steps_before_finish: usize,
    pub spin: u32,
}

#[derive(Debug, Clone, Serialize)]
pub enum SetOp {
    Alpha(f64),
    Beta(f64),
    Thr(usize, f64),
    Gvw(usize, f64),
    Speed(f64),
    HalfTone(f64),
    Volume(f64),
    Rate(usize),
    Fperiod(usize),
}

#[derive(Debug, Clone, Serialize)]
pub struct Case {
    pub voice: VoiceChoice,
    pub cond: Cond,
    pub jobs: Vec<Job>,
    /// noise setter calls made before the final values on the second engine
    pub detour: Vec<SetOp>,
    /// order in which the final values are applied on the second engine
    pub final_order: Vec<usize>,
}

#[derive(Debug, PartialEq)]
struct Obs {
    sf: usize,
    fp: usize,
    vol: u64,
    thr: Vec<u64>,
    gvw: Vec<u64>,
    speed: u64,
    align: bool,
    alpha: u64,
    beta: u64,
    ht: u64,
    iw: Vec<Vec<u64>>,
}

fn observe(e: &Engine) -> Obs {
    let c = &e.condition;
    let n = e.voices.global_metadata().num_streams;
    let iw = c.get_interporation_weight();
    let mut w = vec![iw.get_duration().iter().map(|x| x.to_bits()).collect::<Vec<_>>()];
    for i in 0..n {
        w.push(iw.get_parameter(i).iter().map(|x| x.to_bits()).collect());
        w.push(iw.get_gv(i).iter().map(|x| x.to_bits()).collect());
    }
    Obs {
        sf: c.get_sampling_frequency(),
        fp: c.get_fperiod(),
        vol: c.get_volume().to_bits(),
        thr: (0..n).map(|i| c.get_msd_threshold(i).to_bits()).collect(),
        gvw: (0..n).map(|i| c.get_gv_weight(i).to_bits()).collect(),
        speed: c.get_speed().to_bits(),
        align: c.get_phoneme_alignment_flag(),
        alpha: c.get_alpha().to_bits(),
        beta: c.get_beta().to_bits(),
        ht: c.get_additional_half_tone().to_bits(),
        iw: w,
    }
}

fn run_job(e: &Engine, j: &Job) -> Result<Vec<f64>, String> {
    if j.chunk == 0 {
        return e.synthesize(j.labels.as_slice()).map_err(|e| e.to_string());
    }
    let mut g = e.generator(j.labels.as_slice()).map_err(|e| e.to_string())?;
    let fp = g.fperiod();
    let mut out = Vec::new();
    let mut buf = vec![0.0; fp * j.chunk.max(1)];
    for _ in 0..j.steps_before_finish {
        let r = g.generate_step(&mut buf);
        if r == 0 {
            break;
        }
        out.extend_from_slice(&buf[..r]);
    }
    out.extend(g.generate_all());
    Ok(out)
}

fn apply_set(e: &mut Engine, op: &SetOp) {
    let c = &mut e.condition;
    match *op {
        SetOp::Alpha(v) => c.set_alpha(v),
        SetOp::Beta(v) => c.set_beta(v),
        SetOp::Thr(i, v) => c.set_msd_threshold(i, v),
        SetOp::Gvw(i, v) => c.set_gv_weight(i, v),
        SetOp::Speed(v) => c.set_speed(v),
        SetOp::HalfTone(v) => c.set_additional_half_tone(v),
        SetOp::Volume(v) => c.set_volume(v),
        SetOp::Rate(v) => c.set_sampling_frequency(v),
        SetOp::Fperiod(v) => c.set_fperiod(v),
    }
}

/// The final values of `cond` as individual setter calls (only those `Cond::apply` performs).
fn final_ops(cond: &Cond) -> Vec<SetOp> {
    let mut v = Vec::new();
    if let Some(a) = cond.alpha {
        v.push(SetOp::Alpha(a));
    }
    v.push(SetOp::Beta(cond.beta));
    for (i, g) in cond.gv_weight.iter().enumerate() {
        if let Some(g) = g {
            v.push(SetOp::Gvw(i, *g));
        }
    }
    for (i, g) in cond.msd_threshold.iter().enumerate() {
        if let Some(g) = g {
            v.push(SetOp::Thr(i, *g));
        }
    }
    v.push(SetOp::HalfTone(cond.half_tone));
    v.push(SetOp::Volume(cond.volume_db));
    v.push(SetOp::Speed(cond.speed));
    if let Some(r) = cond.rate {
        v.push(SetOp::Rate(r));
    }
    if let Some(f) = cond.fperiod {
        v.push(SetOp::Fperiod(f));
    }
    v
}

pub struct SharedEngine;

impl Prop for SharedEngine {
    type Case = Case;
    fn name(&self) -> String {
        "shared-engine".into()
    }
    fn rule(&self) -> String {
        "engine (generated voice 90 %, bundled/perturbed 10 %) with a generated in-envelope condition; 2..16 jobs with their own label lists (1..6 labels), each either synthesize or a generator consumed in chunks then finished; all jobs run concurrently on ONE shared &Engine (scoped threads, barrier, generated per-thread spin stagger) and must be bit-identical to the sequential reference; also: repeat, clone, interleaving with a half-consumed live generator, getters unchanged by every call, and a second engine that reaches the same final setter values through a generated detour in a generated order gives equal getters and waveform. Non-trivial: >= 2 threads running different utterances concurrently".into()
    }
    fn tape_len(&self, _: Tier) -> usize {
        14000
    }
    fn cases(&self, tier: Tier) -> u32 {
        tier.pick(300, 8_000)
    }
    fn shards(&self) -> usize {
        // each case spawns up to 16 threads itself
        4
    }
    fn decode(&self, t: &mut Tape, _: Tier) -> Case {
        let voice = gen_voice_choice(t, 10, GenOpts::default());
        let nstreams = match &voice {
            VoiceChoice::Generated(v) => v.streams.len(),
            _ => 3,
        };
        let mut cond = gen_cond(t, nstreams);
        // keep the cost bounded: no extreme slow-down with large frame periods
        if cond.speed < 0.5 {
            cond.speed = 0.5;
        }
        let k = t.urange(2, 16);
        let jobs = (0..k)
            .map(|_| {
                let n = t.urange(1, 6);
                let (labels, _) = gen_label_lines(t, n, false);
                let chunk = if t.chance(0.4) { t.urange(1, 3) } else { 0 };
                Job { labels, chunk, steps_before_finish: t.below(40), spin: t.below(30_000) as u32 }
            })
            .collect();
        let nd = t.below(12);
        let detour = (0..nd)
            .map(|_| match t.below(9) {
                0 => SetOp::Alpha(special_f64(t)),
                1 => SetOp::Beta(special_f64(t)),
                2 => SetOp::Thr(t.below(nstreams), special_f64(t)),
                3 => SetOp::Gvw(t.below(nstreams), special_f64(t)),
                4 => SetOp::Speed(special_f64(t)),
                5 => SetOp::HalfTone(special_f64(t)),
                6 => SetOp::Volume(t.uniform(-60.0, 60.0)),
                7 => SetOp::Rate(special_usize(t)),
                _ => SetOp::Fperiod(special_usize(t)),
            })
            .collect();
        let nf = final_ops(&cond).len();
        let mut final_order: Vec<usize> = (0..nf).collect();
        for i in (1..nf).rev() {
            let j = t.below(i + 1);
            final_order.swap(i, j);
        }
        Case { voice, cond, jobs, detour, final_order }
    }
    fn check(&self, c: &Case) -> Result<Report, Failure> {
        let (mut engine, info) = build_engine(&c.voice)?;
        c.cond.apply(&mut engine);
        // size guard (frames x fperiod) via the cheap generator path
        let fp = engine.condition.get_fperiod();
        for j in &c.jobs {
            let frames = match catch(|| engine.generator(j.labels.as_slice()).map(|g| crate::engine_util::trajectories(&g).lf0.len())) {
                Ok(Ok(n)) => n,
                Ok(Err(e)) => fail!("generator", "generator failed: {}", e),
                Err(p) => fail!(p.signature(), "generator panicked: {}", p.msg),
            };
            if frames * fp > 600_000 {
                return Ok(Report::rejected("too-long"));
            }
        }
        let before = observe(&engine);
        // sequential reference on a private clone
        let private = engine.clone();
        let mut reference = Vec::with_capacity(c.jobs.len());
        for j in &c.jobs {
            match catch(|| run_job(&private, j)) {
                Ok(Ok(w)) => reference.push(w),
                Ok(Err(e)) => fail!("synthesize-error", "job failed: {}", e),
                Err(p) => fail!(p.signature(), "job panicked: {}", p.msg),
            }
            ensure!(observe(&private) == before, "engine-mutated", "a synthesis call changed the engine's observable settings");
        }
        // (b) repeat on the original, with a half-consumed live generator in between
        {
            let j0 = &c.jobs[0];
            let mut live = match engine.generator(c.jobs[c.jobs.len() - 1].labels.as_slice()) {
                Ok(g) => g,
                Err(e) => fail!("generator", "{}", e),
            };
            let mut buf = vec![0.0; fp];
            let mut live_out = Vec::new();
            for _ in 0..3 {
                let r = live.generate_step(&mut buf);
                live_out.extend_from_slice(&buf[..r]);
            }
            let again = run_job(&engine, j0).map_err(|e| Failure::new("synthesize-error", e))?;
            if let Some(i) = bits_equal(&again, &reference[0]) {
                fail!("not-repeatable", "repeating job 0 (with a live half-consumed generator alongside) differs at sample {}", i);
            }
            live_out.extend(live.generate_all());
            let last = c.jobs.len() - 1;
            let whole = engine.synthesize(c.jobs[last].labels.as_slice()).map_err(|e| Failure::new("synthesize-error", e.to_string()))?;
            if let Some(i) = bits_equal(&live_out, &whole) {
                fail!("interleaving", "a generator interleaved with another synthesis differs from one-shot synthesis at sample {}", i);
            }
            ensure!(observe(&engine) == before, "engine-mutated", "synthesis changed the engine's observable settings");
        }
        // (a) concurrent on one shared engine
        let shared = ForceSync(&engine);
        let barrier = Barrier::new(c.jobs.len());
        let results: Vec<Result<Vec<f64>, String>> = std::thread::scope(|s| {
            let hs: Vec<_> = c
                .jobs
                .iter()
                .map(|j| {
                    let shared = &shared;
                    let barrier = &barrier;
                    s.spawn(move || {
                        barrier.wait();
                        for _ in 0..j.spin {
                            std::hint::spin_loop();
                        }
                        match catch(|| run_job(shared.0, j)) {
                            Ok(r) => r,
                            Err(p) => Err(format!("panic: {}", p.msg)),
                        }
                    })
                })
                .collect();
            hs.into_iter().map(|h| h.join().unwrap_or_else(|_| Err("thread died".into()))).collect()
        });
        for (k, (r, want)) in results.iter().zip(&reference).enumerate() {
            match r {
                Err(e) => fail!("concurrent-error", "job {} failed when run concurrently: {}", k, e),
                Ok(w) => {
                    if let Some(i) = bits_equal(w, want) {
                        fail!("concurrent-differs", "job {} of {} run concurrently on a shared engine differs from its sequential result at sample {} (lengths {} vs {})", k, c.jobs.len(), i, w.len(), want.len());
                    }
                }
            }
        }
        ensure!(observe(&engine) == before, "engine-mutated", "concurrent synthesis changed the engine's observable settings");
        // (d) different setter history, same final values
        let (mut other, _) = build_engine(&c.voice)?;
        for op in &c.detour {
            apply_set(&mut other, op);
        }
        let fin = final_ops(&c.cond);
        for i in &c.final_order {
            apply_set(&mut other, &fin[*i]);
        }
        // values not covered by final_ops keep their detour value: re-apply defaults for them
        let (fresh, _) = build_engine(&c.voice)?;
        if c.cond.alpha.is_none() {
            other.condition.set_alpha(fresh.condition.get_alpha());
        }
        for i in 0..info.nstreams {
            if c.cond.gv_weight[i].is_none() {
                other.condition.set_gv_weight(i, 1.0);
            }
            if c.cond.msd_threshold[i].is_none() {
                other.condition.set_msd_threshold(i, 0.5);
            }
        }
        if c.cond.rate.is_none() {
            other.condition.set_sampling_frequency(info.rate0);
        }
        if c.cond.fperiod.is_none() {
            other.condition.set_fperiod(info.fperiod0);
        }
        ensure!(observe(&other) == before, "history-dependence", "two setter histories ending in the same values give different getters: {:?} vs {:?}", observe(&other), before);
        let w2 = run_job(&other, &c.jobs[0]).map_err(|e| Failure::new("synthesize-error", e))?;
        if let Some(i) = bits_equal(&w2, &reference[0]) {
            fail!("history-dependence", "two engines with equal settings reached through different setter histories differ at sample {}", i);
        }
        let mut rep = Report::new();
        let distinct = c.jobs.iter().map(|j| &j.labels).collect::<std::collections::HashSet<_>>().len();
        rep.nontrivial = c.jobs.len() >= 2 && distinct >= 2;
        rep.class(c.voice.class());
        rep.class(format!("threads:{}", match c.jobs.len() { 2..=4 => "2-4", 5..=8 => "5-8", _ => "9-16" }));
        rep.class_if(c.jobs.iter().any(|j| j.chunk > 0), "has-generator-job");
        rep.metric("thread_jobs", c.jobs.len() as f64);
        Ok(rep)
    }
}

fn extra(s: &mut Session) {
    // compile-time probe: Engine: Send + Sync + Clone, SpeechGenerator: Send
    let dir = verif_dir().join("harness/probes/send_sync");
    let out = std::process::Command::new("cargo")
        .args(["check", "--offline", "--quiet", "--target-dir"])
        .arg(verif_dir().join("target/probe"))
        .current_dir(&dir)
        .env("CARGO_NET_OFFLINE", "true")
        .output();
    let rule = "compile-time probe crate: Engine/Condition/VoiceSet: Send + Sync + Clone, SpeechGenerator: Send (cargo check against the current tree)";
    match out {
        Ok(o) if o.status.success() => {
            let mut r = Report::new();
            r.nontrivial = false;
            s.record("send-sync-probe", rule, 1, &r, || json!("cargo check of harness/probes/send_sync succeeded"));
        }
        Ok(o) => {
            let err = String::from_utf8_lossy(&o.stderr);
            let relevant = err.contains("cannot be shared between threads") || err.contains("cannot be sent between threads") || err.contains("Clone` is not satisfied") || err.contains("is not satisfied");
            if relevant {
                let f = Failure::new("send-sync-probe", format!("the Send/Sync/Clone probe does not compile: {}", err.lines().filter(|l| l.starts_with("error")).take(3).collect::<Vec<_>>().join(" | ")));
                s.failure("send-sync-probe", &f, json!({ "kind": "probe" }));
            } else {
                s.notes.push(format!("send/sync probe could not be built for an unrelated reason (not counted): {}", err.lines().take(5).collect::<Vec<_>>().join(" | ")));
            }
        }
        Err(e) => s.notes.push(format!("send/sync probe could not be started: {}", e)),
    }
}
