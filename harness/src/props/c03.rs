//! C03 Synthesis is a deterministic pure function, safe to share across threads.

use std::sync::Barrier;

use serde::Serialize;
use serde_json::json;

use jbonsai::Engine;

use crate::corpus::gen_label_lines;
use crate::engine_case::{build_engine, gen_cond, gen_voice_choice, Cond, VoiceChoice};
use crate::engine_util::bits_equal;
use crate::runner::{DynProp, Failure, Prop, Report, Session, Tier};
use crate::tape::Tape;
use crate::util::{catch, verif_dir};
use crate::voice::GenOpts;
use crate::{ensure, fail};

use super::c20::{special_f64, special_usize};
use super::PropertyDef;

pub fn def() -> PropertyDef {
    PropertyDef {
        id: "C03",
        level: "exploration",
        props: |_| vec![Box::new(SharedEngine) as Box<dyn DynProp>],
        extra,
        replay_custom,
        assumptions: &[
            "the OS owns the thread interleaving: the harness only randomises start offsets (barrier + per-thread spin count from the case); a race with a very narrow window can be missed and a failing schedule is not replayable (the replay re-runs the same jobs)",
            "Engine: Send + Sync + Clone and SpeechGenerator: Send are checked at compile time by the probe crate harness/probes/send_sync (cargo check); the threaded check itself wraps &Engine in a ForceSync newtype so that it can observe a data race introduced with interior mutability",
            "reference = the same jobs run sequentially on a private clone of the engine",
            "history independence is additionally checked against digests computed by a fresh child process (different order, no other history), which exposes hidden state keyed by only part of the inputs",
        ],
    }
}

struct ForceSync<'a>(&'a Engine);
// SAFETY: deliberately unchecked - the property under test is that sharing is safe.
unsafe impl Sync for ForceSync<'_> {}
unsafe impl Send for ForceSync<'_> {}

#[derive(Debug, Clone, Serialize)]
pub struct Job {
    pub labels: Vec<String>,
    /// 0 = synthesize; n > 0 = generator consumed in chunks of n frames, then generate_all
    pub chunk: usize,
    pub steps_before_finish: usize,
    pub spin: u32,
}

#[derive(Debug, Clone, Serialize)]
pub enum SetOp {
    Alpha(f64),
    Beta(f64),
    Thr(usize, f64),
    Gvw(usize, f64),
    Speed(f64),
    HalfTone(f64),
    Volume(f64),
    Rate(usize),
    Fperiod(usize),
}

#[derive(Debug, Clone, Serialize)]
pub struct Case {
    pub voice: VoiceChoice,
    /// further voices with the same metadata (variants of a generated `voice`) and the
    /// interpolation weights [duration, parameter per stream.., gv per stream..] to use with them
    pub extra_voices: Vec<crate::voice::VoiceSpec>,
    pub weights: Vec<Vec<f64>>,
    pub cond: Cond,
    pub jobs: Vec<Job>,
    /// noise setter calls made before the final values on the second engine
    pub detour: Vec<SetOp>,
    /// order in which the final values are applied on the second engine
    pub final_order: Vec<usize>,
}

#[derive(Debug, PartialEq)]
struct Obs {
    sf: usize,
    fp: usize,
    vol: u64,
    thr: Vec<u64>,
    gvw: Vec<u64>,
    speed: u64,
    align: bool,
    alpha: u64,
    beta: u64,
    ht: u64,
    iw: Vec<Vec<u64>>,
}

fn observe(e: &Engine) -> Obs {
    let c = &e.condition;
    let n = e.voices.global_metadata().num_streams;
    let iw = c.get_interporation_weight();
    let mut w = vec![iw.get_duration().iter().map(|x| x.to_bits()).collect::<Vec<_>>()];
    for i in 0..n {
        w.push(iw.get_parameter(i).iter().map(|x| x.to_bits()).collect());
        w.push(iw.get_gv(i).iter().map(|x| x.to_bits()).collect());
    }
    Obs {
        sf: c.get_sampling_frequency(),
        fp: c.get_fperiod(),
        vol: c.get_volume().to_bits(),
        thr: (0..n).map(|i| c.get_msd_threshold(i).to_bits()).collect(),
        gvw: (0..n).map(|i| c.get_gv_weight(i).to_bits()).collect(),
        speed: c.get_speed().to_bits(),
        align: c.get_phoneme_alignment_flag(),
        alpha: c.get_alpha().to_bits(),
        beta: c.get_beta().to_bits(),
        ht: c.get_additional_half_tone().to_bits(),
        iw: w,
    }
}

/// The floating-point environment of the calling thread is part of its state: subnormal
/// arithmetic and round-to-nearest must still work after a call into the library.
fn fp_env_ok() -> bool {
    use std::hint::black_box;
    let sub = black_box(f64::MIN_POSITIVE) / black_box(4.0);
    let sub_in = black_box(f64::from_bits(1)) * black_box(2.0);
    let near = black_box(1.0f64) + black_box(f64::EPSILON / 2.0);
    let up = black_box(1.0f64) + black_box(f64::EPSILON * 0.75);
    sub > 0.0 && sub.to_bits() != 0 && sub_in.to_bits() == 2 && near == 1.0 && up == 1.0 + f64::EPSILON
}

fn run_job(e: &Engine, j: &Job) -> Result<Vec<f64>, String> {
    let r = run_job_inner(e, j);
    if !fp_env_ok() {
        return Err("the call left the thread's floating-point environment changed (flush-to-zero / rounding mode)".into());
    }
    r
}

fn run_job_inner(e: &Engine, j: &Job) -> Result<Vec<f64>, String> {
    if j.chunk == 0 {
        return e.synthesize(j.labels.as_slice()).map_err(|e| e.to_string());
    }
    let mut g = e.generator(j.labels.as_slice()).map_err(|e| e.to_string())?;
    let fp = g.fperiod();
    let mut out = Vec::new();
    let mut buf = vec![0.0; fp * j.chunk.max(1)];
    for _ in 0..j.steps_before_finish {
        let r = g.generate_step(&mut buf);
        if r == 0 {
            break;
        }
        out.extend_from_slice(&buf[..r]);
    }
    // a live generator is a value: every other job hands it over to a thread that has never
    // rendered anything (freshly spawned) for two more steps and the remainder
    if j.steps_before_finish % 2 == 1 {
        let rest = std::thread::scope(|s| {
            s.spawn(move || {
                let mut tail = Vec::new();
                for _ in 0..2 {
                    let r = g.generate_step(&mut buf);
                    if r == 0 {
                        break;
                    }
                    tail.extend_from_slice(&buf[..r]);
                }
                tail.extend(g.generate_all());
                tail
            })
            .join()
        });
        match rest {
            Ok(t) => out.extend(t),
            Err(_) => return Err("the thread that took over the live generator panicked".into()),
        }
        return Ok(out);
    }
    out.extend(g.generate_all());
    Ok(out)
}

fn apply_set(e: &mut Engine, op: &SetOp) {
    let c = &mut e.condition;
    match *op {
        SetOp::Alpha(v) => c.set_alpha(v),
        SetOp::Beta(v) => c.set_beta(v),
        SetOp::Thr(i, v) => c.set_msd_threshold(i, v),
        SetOp::Gvw(i, v) => c.set_gv_weight(i, v),
        SetOp::Speed(v) => c.set_speed(v),
        SetOp::HalfTone(v) => c.set_additional_half_tone(v),
        SetOp::Volume(v) => c.set_volume(v),
        SetOp::Rate(v) => c.set_sampling_frequency(v),
        SetOp::Fperiod(v) => c.set_fperiod(v),
    }
}

/// The final values of `cond` as individual setter calls (only those `Cond::apply` performs).
fn final_ops(cond: &Cond) -> Vec<SetOp> {
    let mut v = Vec::new();
    if let Some(a) = cond.alpha {
        v.push(SetOp::Alpha(a));
    }
    v.push(SetOp::Beta(cond.beta));
    for (i, g) in cond.gv_weight.iter().enumerate() {
        if let Some(g) = g {
            v.push(SetOp::Gvw(i, *g));
        }
    }
    for (i, g) in cond.msd_threshold.iter().enumerate() {
        if let Some(g) = g {
            v.push(SetOp::Thr(i, *g));
        }
    }
    v.push(SetOp::HalfTone(cond.half_tone));
    v.push(SetOp::Volume(cond.volume_db));
    v.push(SetOp::Speed(cond.speed));
    if let Some(r) = cond.rate {
        v.push(SetOp::Rate(r));
    }
    if let Some(f) = cond.fperiod {
        v.push(SetOp::Fperiod(f));
    }
    v
}

/// Engine of the case: a single voice, or a voice set with non-uniform interpolation weights.
fn case_engine(c: &Case) -> Result<(Engine, crate::engine_case::VoiceInfo), Failure> {
    if c.extra_voices.is_empty() {
        return build_engine(&c.voice);
    }
    let VoiceChoice::Generated(base) = &c.voice else { return build_engine(&c.voice) };
    let mut voices = Vec::new();
    for spec in std::iter::once(base.as_ref()).chain(c.extra_voices.iter()) {
        let tmp = crate::voice::TempVoice(crate::voice::write_temp(&spec.to_bytes(), "c03"));
        let v = jbonsai::model::load_htsvoice_file(&tmp.0).map_err(|e| Failure::new("load-valid-voice", format!("generated voice rejected: {}", e)))?;
        voices.push(std::sync::Arc::new(v));
    }
    let mut e = crate::engine_case::engine_from_voices(voices)?;
    let ns = base.streams.len();
    let iw = e.condition.get_interporation_weight_mut();
    let bad = |e: jbonsai::model::interporation_weight::WeightError| Failure::new("valid-weights-rejected", e.to_string());
    iw.set_duration(&c.weights[0]).map_err(bad)?;
    for i in 0..ns {
        iw.set_parameter(i, &c.weights[1 + i]).map_err(bad)?;
        iw.set_gv(i, &c.weights[1 + ns + i]).map_err(bad)?;
    }
    let info = crate::engine_case::VoiceInfo {
        stage: base.stage,
        use_log_gain: base.use_log_gain,
        alpha0: base.alpha,
        nstate: base.num_states,
        nstreams: ns,
        rate0: base.sampling_frequency,
        fperiod0: base.frame_period,
    };
    Ok((e, info))
}

pub struct SharedEngine;

impl Prop for SharedEngine {
    type Case = Case;
    fn name(&self) -> String {
        "shared-engine".into()
    }
    fn rule(&self) -> String {
        "engine (generated voice 90 % - a third of them as a SET of 2..4 same-metadata voices with non-uniform interpolation weights -, bundled/perturbed 10 %) with a generated in-envelope condition; 2..16 jobs with their own label lists (1..6 labels), each either synthesize or a generator consumed in chunks then finished; all jobs run concurrently on ONE shared &Engine (scoped threads, barrier, generated per-thread spin stagger) and must be bit-identical to the sequential reference; also: repeat, clone, interleaving with a half-consumed live generator, getters unchanged by every call, and a second engine that reaches the same final setter values through a generated detour in a generated order gives equal getters and waveform; a clone of the used engine whose volume and beta are changed renders like a separately built engine with those values while the original is unaffected. Non-trivial: >= 2 threads running different utterances concurrently".into()
    }
    fn tape_len(&self, _: Tier) -> usize {
        14000
    }
    fn cases(&self, tier: Tier) -> u32 {
        tier.pick(300, 8_000)
    }
    fn shards(&self) -> usize {
        // each case spawns up to 16 threads itself
        4
    }
    fn decode(&self, t: &mut Tape, _: Tier) -> Case {
        let voice = gen_voice_choice(t, 10, GenOpts::default());
        let nstreams = voice.nstreams();
        let mut cond = gen_cond(t, nstreams);
        // keep the cost bounded: no extreme slow-down with large frame periods
        if cond.speed < 0.5 {
            cond.speed = 0.5;
        }
        // a third of the generated-voice cases use a voice SET with non-uniform weights
        let (extra_voices, weights) = match &voice {
            VoiceChoice::Generated(base) if t.chance(0.35) => {
                let n_extra = t.urange(1, 3);
                let extra: Vec<_> = (0..n_extra).map(|_| crate::voice::variant_voice(t, base)).collect();
                let w = (0..1 + 2 * nstreams).map(|_| crate::engine_case::simplex_weights(t, n_extra + 1)).collect();
                (extra, w)
            }
            _ => (vec![], vec![]),
        };
        let k = t.urange(2, 16);
        let jobs = (0..k)
            .map(|_| {
                let n = t.urange(1, 6);
                let (labels, _) = gen_label_lines(t, n, false);
                let chunk = if t.chance(0.4) { t.urange(1, 3) } else { 0 };
                Job { labels, chunk, steps_before_finish: t.below(40), spin: t.below(30_000) as u32 }
            })
            .collect();
        let nd = t.below(12);
        let detour = (0..nd)
            .map(|_| match t.below(9) {
                0 => SetOp::Alpha(special_f64(t)),
                1 => SetOp::Beta(special_f64(t)),
                2 => SetOp::Thr(t.below(nstreams), special_f64(t)),
                3 => SetOp::Gvw(t.below(nstreams), special_f64(t)),
                4 => SetOp::Speed(special_f64(t)),
                5 => SetOp::HalfTone(special_f64(t)),
                6 => SetOp::Volume(t.uniform(-60.0, 60.0)),
                7 => SetOp::Rate(special_usize(t)),
                _ => SetOp::Fperiod(special_usize(t)),
            })
            .collect();
        let nf = final_ops(&cond).len();
        let mut final_order: Vec<usize> = (0..nf).collect();
        for i in (1..nf).rev() {
            let j = t.below(i + 1);
            final_order.swap(i, j);
        }
        Case { voice, extra_voices, weights, cond, jobs, detour, final_order }
    }
    fn check(&self, c: &Case) -> Result<Report, Failure> {
        let (mut engine, info) = case_engine(c)?;
        c.cond.apply(&mut engine);
        // size guard (frames x fperiod) via the cheap generator path
        let fp = engine.condition.get_fperiod();
        for j in &c.jobs {
            let frames = match catch(|| engine.generator(j.labels.as_slice()).map(|g| crate::engine_util::trajectories(&g).lf0.len())) {
                Ok(Ok(n)) => n,
                Ok(Err(e)) => fail!("generator", "generator failed: {}", e),
                Err(p) => fail!(p.signature(), "generator panicked: {}", p.msg),
            };
            if frames * fp > 600_000 {
                return Ok(Report::rejected("too-long"));
            }
        }
        let before = observe(&engine);
        // sequential reference on a private clone
        let private = engine.clone();
        let mut reference = Vec::with_capacity(c.jobs.len());
        for j in &c.jobs {
            // the reference of a job is the ONE-SHOT waveform of its labels computed here, on this
            // thread: however a job obtains its samples (whole call, live generator stepped in
            // chunks, generator handed to another thread half-way), they must be these
            let oneshot = match catch(|| private.synthesize(j.labels.as_slice())) {
                Ok(Ok(w)) => w,
                Ok(Err(e)) => fail!("synthesize-error", "job failed: {}", e),
                Err(p) => fail!(p.signature(), "job panicked: {}", p.msg),
            };
            match catch(|| run_job(&private, j)) {
                Ok(Ok(w)) => {
                    if let Some(i) = bits_equal(&w, &oneshot) {
                        fail!("job-differs-from-one-shot", "a job run alone (chunk {}, {} steps before finishing{}) differs from the one-shot waveform of its labels at sample {} (lengths {} vs {})", j.chunk, j.steps_before_finish, if j.chunk > 0 && j.steps_before_finish % 2 == 1 { ", live generator handed to a fresh thread" } else { "" }, i, w.len(), oneshot.len());
                    }
                }
                Ok(Err(e)) => fail!("synthesize-error", "job failed: {}", e),
                Err(p) => fail!(p.signature(), "job panicked: {}", p.msg),
            }
            reference.push(oneshot);
            ensure!(observe(&private) == before, "engine-mutated", "a synthesis call changed the engine's observable settings");
        }
        // (b) repeat on the original, with a half-consumed live generator in between
        {
            let j0 = &c.jobs[0];
            let mut live = match engine.generator(c.jobs[c.jobs.len() - 1].labels.as_slice()) {
                Ok(g) => g,
                Err(e) => fail!("generator", "{}", e),
            };
            let mut buf = vec![0.0; fp];
            let mut live_out = Vec::new();
            for _ in 0..3 {
                let r = live.generate_step(&mut buf);
                live_out.extend_from_slice(&buf[..r]);
            }
            let again = run_job(&engine, j0).map_err(|e| Failure::new("synthesize-error", e))?;
            if let Some(i) = bits_equal(&again, &reference[0]) {
                fail!("not-repeatable", "repeating job 0 (with a live half-consumed generator alongside) differs at sample {}", i);
            }
            live_out.extend(live.generate_all());
            let last = c.jobs.len() - 1;
            let whole = engine.synthesize(c.jobs[last].labels.as_slice()).map_err(|e| Failure::new("synthesize-error", e.to_string()))?;
            if let Some(i) = bits_equal(&live_out, &whole) {
                fail!("interleaving", "a generator interleaved with another synthesis differs from one-shot synthesis at sample {}", i);
            }
            ensure!(observe(&engine) == before, "engine-mutated", "synthesis changed the engine's observable settings");
        }
        // (a) concurrent on one shared engine
        let shared = ForceSync(&engine);
        let barrier = Barrier::new(c.jobs.len());
        let results: Vec<Result<Vec<f64>, String>> = std::thread::scope(|s| {
            let hs: Vec<_> = c
                .jobs
                .iter()
                .map(|j| {
                    let shared = &shared;
                    let barrier = &barrier;
                    s.spawn(move || {
                        barrier.wait();
                        for _ in 0..j.spin {
                            std::hint::spin_loop();
                        }
                        match catch(|| run_job(shared.0, j)) {
                            Ok(r) => r,
                            Err(p) => Err(format!("panic: {}", p.msg)),
                        }
                    })
                })
                .collect();
            hs.into_iter().map(|h| h.join().unwrap_or_else(|_| Err("thread died".into()))).collect()
        });
        for (k, (r, want)) in results.iter().zip(&reference).enumerate() {
            match r {
                Err(e) => fail!("concurrent-error", "job {} failed when run concurrently: {}", k, e),
                Ok(w) => {
                    if let Some(i) = bits_equal(w, want) {
                        fail!("concurrent-differs", "job {} of {} run concurrently on a shared engine differs from its sequential result at sample {} (lengths {} vs {})", k, c.jobs.len(), i, w.len(), want.len());
                    }
                }
            }
        }
        ensure!(observe(&engine) == before, "engine-mutated", "concurrent synthesis changed the engine's observable settings");
        // (d) different setter history, same final values
        let (mut other, _) = case_engine(c)?;
        // every third case the history starts even earlier: the Condition object served ANOTHER voice
        // (an LSP voice with stage 3, log gain, its own alpha) before it was loaded for this one
        let reused_condition = c.jobs.len() % 3 == 0;
        if reused_condition {
            let prior = super::c01::prior_lsp_log_gain_set()?;
            let mut cond = jbonsai::Condition::default();
            if cond.load_model(&prior).is_err() || cond.load_model(&other.voices).is_err() {
                fail!("load-model", "Condition::load_model failed on a valid voice");
            }
            *cond.get_interporation_weight_mut() = other.condition.get_interporation_weight().clone();
            other = Engine::new(other.voices.clone(), cond);
        }
        for op in &c.detour {
            apply_set(&mut other, op);
        }
        let fin = final_ops(&c.cond);
        for i in &c.final_order {
            apply_set(&mut other, &fin[*i]);
        }
        // values not covered by final_ops keep their detour value: re-apply defaults for them
        let (fresh, _) = case_engine(c)?;
        if c.cond.alpha.is_none() {
            other.condition.set_alpha(fresh.condition.get_alpha());
        }
        for i in 0..info.nstreams {
            if c.cond.gv_weight[i].is_none() {
                other.condition.set_gv_weight(i, 1.0);
            }
            if c.cond.msd_threshold[i].is_none() {
                other.condition.set_msd_threshold(i, 0.5);
            }
        }
        if c.cond.rate.is_none() {
            other.condition.set_sampling_frequency(info.rate0);
        }
        if c.cond.fperiod.is_none() {
            other.condition.set_fperiod(info.fperiod0);
        }
        ensure!(observe(&other) == before, "history-dependence", "two setter histories ending in the same values give different getters: {:?} vs {:?}", observe(&other), before);
        let w2 = run_job(&other, &c.jobs[0]).map_err(|e| Failure::new("synthesize-error", e))?;
        if let Some(i) = bits_equal(&w2, &reference[0]) {
            fail!("history-dependence", "two engines with equal settings reached through different setter histories differ at sample {}", i);
        }
        // (e) a clone of a USED engine is an independent engine: settings changed on the clone take
        // effect on the clone (like on a fresh engine brought to the same values) and only there
        {
            let mut cl = engine.clone();
            let new_volume = if c.cond.volume_db == 6.0 { -6.0 } else { 6.0 };
            let new_beta = if c.cond.beta == 0.3 { 0.1 } else { 0.3 };
            cl.condition.set_volume(new_volume);
            cl.condition.set_beta(new_beta);
            other.condition.set_volume(new_volume);
            other.condition.set_beta(new_beta);
            let wc = run_job(&cl, &c.jobs[0]).map_err(|e| Failure::new("synthesize-error", e))?;
            let wo = run_job(&other, &c.jobs[0]).map_err(|e| Failure::new("synthesize-error", e))?;
            if let Some(i) = bits_equal(&wc, &wo) {
                fail!("clone-not-independent", "a clone of a used engine with volume and beta changed renders differently from a separately built engine with the same values (sample {})", i);
            }
            let again = run_job(&engine, &c.jobs[0]).map_err(|e| Failure::new("synthesize-error", e))?;
            if let Some(i) = bits_equal(&again, &reference[0]) {
                fail!("clone-not-independent", "changing settings on a clone changed what the original engine renders (sample {})", i);
            }
            ensure!(observe(&engine) == before, "engine-mutated", "setters on a clone changed the original engine's observable settings");
        }
        // (f) a value READ from the engine is a value like any other: an engine that was set to v dB
        // and then had its own reading written back (the volume getter is lossy: it reports the dB
        // of a stored linear gain) must render like an engine that is set to that reading directly.
        // The volume is searched near the case's own so that the reading differs from what was set.
        let mut wrote_back = false;
        if c.jobs.len() % 2 == 0 {
            let v0 = c.cond.volume_db;
            let probe = |v: f64| -> Option<f64> {
                let mut a = engine.condition.clone();
                a.set_volume(v);
                let g = a.get_volume();
                let mut b = engine.condition.clone();
                b.set_volume(g);
                (g != v && format!("{:?}", a) != format!("{:?}", b)).then_some(g)
            };
            // (readings that differ cluster where exp and ln round differently, around +-8..9 dB with
            // this libm: both neighbourhoods are scanned, the case's own first)
            let sign = if v0 > 0.0 { -1.0 } else { 1.0 };
            let start = 8.0 + (v0.abs() * 1000.0).fract() * 0.5;
            let found = (0..4000)
                .map(|i| v0 + (i as f64) * 1e-3 * sign)
                .chain((0..8000).map(|i| -sign * (start + i as f64 * 1e-4)))
                .find_map(|v| probe(v).map(|g| (v, g)));
            if let Some((v, g)) = found {
                let mut hist = engine.clone();
                hist.condition.set_volume(v);
                let read = hist.condition.get_volume();
                hist.condition.set_volume(read);
                let mut direct = engine.clone();
                direct.condition.set_volume(0.0);
                direct.condition.set_volume(g);
                let a = run_job(&hist, &c.jobs[0]).map_err(|e| Failure::new("synthesize-error", e))?;
                let b = run_job(&direct, &c.jobs[0]).map_err(|e| Failure::new("synthesize-error", e))?;
                if let Some(i) = bits_equal(&a, &b) {
                    fail!("history-dependence", "an engine set to {} dB whose own volume reading {} was written back renders differently (sample {}) from an engine set to {} dB directly", v, read, i, g);
                }
                wrote_back = true;
            }
        }
        let mut rep = Report::new();
        rep.class_if(wrote_back, "volume-reading-written-back");
        rep.class_if(reused_condition, "condition-object-served-another-voice-before");
        let distinct = c.jobs.iter().map(|j| &j.labels).collect::<std::collections::HashSet<_>>().len();
        rep.nontrivial = c.jobs.len() >= 2 && distinct >= 2;
        rep.class(c.voice.class());
        rep.class_if(!c.extra_voices.is_empty(), &format!("voice-set:{}", c.extra_voices.len() + 1));
        rep.class(format!("threads:{}", match c.jobs.len() { 2..=4 => "2-4", 5..=8 => "5-8", _ => "9-16" }));
        rep.class_if(c.jobs.iter().any(|j| j.chunk > 0), "has-generator-job");
        rep.metric("thread_jobs", c.jobs.len() as f64);
        Ok(rep)
    }
}

// ---------------------------------------------------------------------------------------------
// History independence against a fresh process

#[derive(Debug, Clone, Serialize)]
pub struct HistCase {
    pub voice: VoiceChoice,
    pub cond_a: Cond,
    pub cond_b: Cond,
    pub align_a: bool,
    pub align_b: bool,
    pub lines: Vec<String>,
    /// voice sets: B also replaces ONE interpolation weight vector
    /// (0 = duration, 1..=streams = parameter of stream i-1, then GV of each stream)
    pub weights_b: Option<(usize, Vec<f64>)>,
}

fn apply_weights_b(c: &HistCase, e: &mut Engine) -> Result<(), Failure> {
    if let (Some((k, w)), VoiceChoice::GeneratedSet { voices, .. }) = (&c.weights_b, &c.voice) {
        let ns = voices[0].streams.len();
        let iw = e.condition.get_interporation_weight_mut();
        let r = if *k == 0 {
            iw.set_duration(w)
        } else if *k <= ns {
            iw.set_parameter(*k - 1, w)
        } else {
            iw.set_gv(*k - 1 - ns, w)
        };
        r.map_err(|e| Failure::new("valid-weights-rejected", e.to_string()))?;
    }
    Ok(())
}

pub fn decode_hist(t: &mut Tape) -> HistCase {
    let voice = gen_voice_choice(t, 6, GenOpts { max_depth: 2, ..GenOpts::default() });
    let (nstreams, rate0, fp0, nstate) = match voice.base_spec() {
        Some(v) => (v.streams.len(), v.sampling_frequency, v.frame_period, v.num_states),
        None => (3, 48000, 240, 5),
    };
    let mut cond_a = gen_cond(t, nstreams);
    if cond_a.speed < 0.5 {
        cond_a.speed = 0.5;
    }
    // B differs from A in 1..3 generated fields
    let mut cond_b = cond_a.clone();
    let k = t.urange(1, 3);
    for _ in 0..k {
        match t.below(8) {
            0 => cond_b.fperiod = Some(*t.pick(&[80usize, 120, 40, 240, 200])),
            1 => cond_b.rate = Some(*t.pick(&[16000usize, 8000, 44100, 96000])),
            2 => cond_b.speed = t.log_uniform(0.5, 2.0),
            3 => cond_b.alpha = Some(t.uniform(0.0, 0.8)),
            4 => cond_b.half_tone = t.uniform(-12.0, 12.0),
            5 => cond_b.beta = t.uniform(0.0, 0.6),
            6 => cond_b.msd_threshold[1] = Some(t.unit()),
            _ => cond_b.gv_weight[t.below(nstreams)] = Some(t.uniform(0.0, 2.0)),
        }
    }
    let align_a = t.chance(0.6);
    let align_b = if t.chance(0.3) { !align_a } else { align_a };
    let n = t.urange(1, 5);
    let (labels, _) = gen_label_lines(t, n, false);
    let rate = cond_a.rate.unwrap_or(rate0);
    let fp = cond_a.fperiod.unwrap_or(fp0);
    let frame_100ns = fp as f64 * 1e7 / rate as f64;
    let typical = nstate as f64 * t.log_uniform(0.8, 3.0);
    let times = if t.chance(0.75) { super::c09::gen_text_times(t, n, frame_100ns, typical, 2.0e8) } else { vec![None; n] };
    let weights_b = match &voice {
        VoiceChoice::GeneratedSet { voices, .. } if t.chance(0.7) => {
            let ns = voices[0].streams.len();
            let k = if t.chance(0.5) { 1 + ns + t.below(ns) } else { t.below(1 + ns) };
            Some((k, crate::engine_case::simplex_weights(t, voices.len())))
        }
        _ => None,
    };
    HistCase { voice, cond_a, cond_b, align_a, align_b, lines: super::c09::timed_lines(&labels, &times), weights_b }
}

fn digest(w: &[f64]) -> u64 {
    let mut h = std::collections::hash_map::DefaultHasher::new();
    use std::hash::Hasher;
    h.write_usize(w.len());
    for x in w {
        h.write_u64(if x.is_nan() { 0x7ff8_0000_0000_0000 } else { x.to_bits() });
    }
    h.finish()
}

fn hist_engine(c: &HistCase, b: bool) -> Result<Engine, Failure> {
    let (mut e, _) = build_engine(&c.voice)?;
    if b {
        c.cond_b.apply(&mut e);
        e.condition.set_phoneme_alignment_flag(c.align_b);
        apply_weights_b(c, &mut e)?;
    } else {
        c.cond_a.apply(&mut e);
        e.condition.set_phoneme_alignment_flag(c.align_a);
    }
    Ok(e)
}

fn hist_too_long(c: &HistCase) -> bool {
    for b in [false, true] {
        let Ok(e) = hist_engine(c, b) else { return true };
        match catch(|| e.generator(c.lines.as_slice()).map(|g| crate::engine_util::trajectories(&g).lf0.len() * e.condition.get_fperiod())) {
            Ok(Ok(n)) if n <= 400_000 => {}
            _ => return true,
        }
    }
    false
}

/// Child side: for each tape print "<digest A> <digest B>" computed in the order A, B
/// (or "skip"). The parent computes them in the order B, A, B after other work.
pub fn fresh_digests(tapes: &[Vec<u32>]) -> Vec<String> {
    tapes
        .iter()
        .map(|tape| {
            let mut t = Tape::new(tape);
            let c = decode_hist(&mut t);
            if hist_too_long(&c) {
                return "skip".to_string();
            }
            let r = catch(|| -> Result<(u64, u64), Failure> {
                let a = hist_engine(&c, false)?.synthesize(c.lines.as_slice()).map_err(|e| Failure::new("synthesize-error", e.to_string()))?;
                let b = hist_engine(&c, true)?.synthesize(c.lines.as_slice()).map_err(|e| Failure::new("synthesize-error", e.to_string()))?;
                Ok((digest(&a), digest(&b)))
            });
            match r {
                Ok(Ok((a, b))) => format!("{} {}", a, b),
                _ => "error".to_string(),
            }
        })
        .collect()
}

const HIST_RULE: &str = "history independence against a FRESH PROCESS: case = (voice, condition A, condition B differing from A in 1..3 fields such as frame period / sampling rate / speed / alpha / thresholds / alignment flag, and for voice sets also in ONE interpolation weight vector (duration, a stream's parameters, or a stream's GV), 1..5 label lines mostly with time stamps). A child process computes digest(A(L)), digest(B(L)) in that order with no other history; the parent - after all other C03 work, i.e. with a long history - computes B(L), A(L), B(L) on separately built engines, and A(L) then B(L) on ONE engine moved from A to B by setters, and must obtain the same digests. Detects hidden state keyed by only a part of the inputs (e.g. a cache keyed by the label text). Non-trivial: every compared case; distinct by case";

fn history_independence(s: &mut Session) {
    use proptest::strategy::{Strategy, ValueTree};
    let n = s.tier.pick(400, 6000);
    let mut runner = proptest::test_runner::TestRunner::new(proptest::test_runner::Config {
        rng_seed: proptest::test_runner::RngSeed::Fixed(crate::util::hash64(&(s.seed, "c03-history"))),
        failure_persistence: None,
        ..Default::default()
    });
    let strat = crate::tapegen::TapeStrategy { len: 9000 };
    let tapes: Vec<Vec<u32>> = (0..n).filter_map(|_| strat.new_tree(&mut runner).ok().map(|t| t.current())).collect();
    // hand the tapes to a fresh process
    let file = crate::util::scratch_dir().join("c03-tapes.json");
    if std::fs::write(&file, serde_json::to_string(&tapes).unwrap_or_default()).is_err() {
        s.notes.push("history-independence: cannot write the tape file".into());
        return;
    }
    let exe = match std::env::current_exe() {
        Ok(e) => e,
        Err(_) => return,
    };
    let out = std::process::Command::new(exe).args(["C03", "--fresh-digests"]).arg(&file).output();
    let lines: Vec<String> = match out {
        Ok(o) if o.status.success() => String::from_utf8_lossy(&o.stdout).lines().filter(|l| !l.is_empty()).map(|l| l.to_string()).collect(),
        _ => {
            s.notes.push("history-independence: the fresh-process child failed (not counted)".into());
            return;
        }
    };
    if lines.len() != tapes.len() {
        s.notes.push(format!("history-independence: child returned {} results for {} cases (not counted)", lines.len(), tapes.len()));
        return;
    }
    // parent: different order, long history. 16 worker threads share the process-wide history.
    let results: Vec<Option<Result<(), Failure>>> = std::thread::scope(|sc| {
        let chunks: Vec<_> = tapes.chunks(tapes.len().div_ceil(16).max(1)).zip(lines.chunks(tapes.len().div_ceil(16).max(1))).collect();
        let hs: Vec<_> = chunks
            .into_iter()
            .map(|(tp, ln)| {
                sc.spawn(move || {
                    tp.iter()
                        .zip(ln)
                        .map(|(tape, line)| {
                            let mut it = line.split(' ');
                            let (Some(da), Some(db)) = (it.next().and_then(|x| x.parse::<u64>().ok()), it.next().and_then(|x| x.parse::<u64>().ok())) else {
                                return None;
                            };
                            let mut t = Tape::new(tape);
                            let c = decode_hist(&mut t);
                            let r = catch(|| -> Result<(), Failure> {
                                let eb = hist_engine(&c, true)?;
                                let ea = hist_engine(&c, false)?;
                                let run = |e: &Engine| e.synthesize(c.lines.as_slice()).map(|w| digest(&w)).map_err(|e| Failure::new("synthesize-error", e.to_string()));
                                let b1 = run(&eb)?;
                                let a1 = run(&ea)?;
                                let b2 = run(&eb)?;
                                ensure!(a1 == da, "history-dependence", "condition A after the same labels were synthesized under condition B: waveform differs from the one a fresh process computes (labels {:?})", c.lines);
                                ensure!(b1 == db && b2 == db, "history-dependence", "condition B: waveform differs from the one a fresh process computes after A (labels {:?})", c.lines);
                                // ONE engine that serves the request under A and is then moved to B by setters
                                let mut ec = hist_engine(&c, false)?;
                                let a3 = run(&ec)?;
                                c.cond_b.apply(&mut ec);
                                ec.condition.set_phoneme_alignment_flag(c.align_b);
                                apply_weights_b(&c, &mut ec)?;
                                let b3 = run(&ec)?;
                                ensure!(a3 == da, "history-dependence", "condition A on a third engine differs from the fresh process (labels {:?})", c.lines);
                                ensure!(b3 == db, "history-dependence", "an engine that served the request under condition A and was then moved to condition B by setters renders B differently from a fresh engine set to B (labels {:?})", c.lines);
                                Ok(())
                            });
                            Some(match r {
                                Ok(r) => r,
                                Err(p) => Err(Failure::new(p.signature(), p.msg)),
                            })
                        })
                        .collect::<Vec<_>>()
                })
            })
            .collect();
        hs.into_iter().flat_map(|h| h.join().unwrap_or_default()).collect()
    });
    for (tape, r) in tapes.iter().zip(results) {
        match r {
            None => {
                let rep = Report::rejected("too-long-or-error-in-child");
                s.record("history-independence", HIST_RULE, crate::util::hash64(tape), &rep, || json!("skipped"));
            }
            Some(Ok(())) => {
                let mut rep = Report::new();
                rep.nontrivial = true;
                let mut t = Tape::new(tape);
                let c = decode_hist(&mut t);
                rep.class_if(c.lines.iter().any(|l| l.contains(' ')), "timed-labels");
                rep.class_if(c.align_a || c.align_b, "alignment-on");
                rep.class_if(c.cond_a.fperiod != c.cond_b.fperiod || c.cond_a.rate != c.cond_b.rate, "frame-rate-differs");
                rep.class_if(c.weights_b.is_some(), "interpolation-weights-differ");
                s.record("history-independence", HIST_RULE, crate::util::hash64(tape), &rep, || serde_json::to_value(&c).unwrap_or(json!(null)));
            }
            Some(Err(f)) => {
                let mut t = Tape::new(tape);
                let c = decode_hist(&mut t);
                if s.failure("history-independence", &f, json!({ "kind": "history", "tape": tape, "case": c })) {
                    return;
                }
            }
        }
    }
}

fn replay_custom(s: &mut Session, v: &serde_json::Value) -> bool {
    if v.get("kind").and_then(|k| k.as_str()) != Some("history") {
        eprintln!("unknown replay kind");
        return false;
    }
    let tape: Vec<u32> = v["tape"].as_array().map(|a| a.iter().map(|x| x.as_u64().unwrap_or(0) as u32).collect()).unwrap_or_default();
    let file = crate::util::scratch_dir().join("c03-replay-tapes.json");
    let _ = std::fs::write(&file, serde_json::to_string(&vec![tape.clone()]).unwrap_or_default());
    let Ok(exe) = std::env::current_exe() else { return false };
    let out = std::process::Command::new(exe).args(["C03", "--fresh-digests"]).arg(&file).output();
    let Ok(o) = out else { return false };
    let line = String::from_utf8_lossy(&o.stdout).lines().next().unwrap_or("").to_string();
    let mut it = line.split(' ');
    let (Some(da), Some(db)) = (it.next().and_then(|x| x.parse::<u64>().ok()), it.next().and_then(|x| x.parse::<u64>().ok())) else { return false };
    let mut t = Tape::new(&tape);
    let c = decode_hist(&mut t);
    let r = (|| -> Result<(), Failure> {
        let eb = hist_engine(&c, true)?;
        let ea = hist_engine(&c, false)?;
        let run = |e: &Engine| e.synthesize(c.lines.as_slice()).map(|w| digest(&w)).map_err(|e| Failure::new("synthesize-error", e.to_string()));
        let b1 = run(&eb)?;
        let a1 = run(&ea)?;
        ensure!(a1 == da && b1 == db, "history-dependence", "waveform depends on the history of the process (labels {:?})", c.lines);
        Ok(())
    })();
    match r {
        Ok(()) => true,
        Err(f) => !s.failure("history-independence", &f, json!({ "kind": "history", "tape": tape, "case": c })),
    }
}

const LONG_RULE: &str = "long utterances (bundled voice, 420..700 consecutive corpus labels, i.e. tens of seconds of speech and thousands of voiced frames in one GV system): the waveform of a reference call must be reproduced bit for bit by a repeat, by a clone, by calls made while earlier results and a half-consumed generator are alive, and by 4 concurrent threads (the harness's allocator places medium-sized buffers at offset 0 or 16 modulo 32 on request, so the alignment of the trajectories differs between these calls by construction). Non-trivial: every case; distinct by the label window";

/// Determinism must not depend on where the allocator places the (large) buffers of a long utterance.
fn long_utterances(s: &mut Session) {
    // the waveform part is expensive (nine renderings of tens of seconds of speech): a few windows;
    // the trajectory part is cheap: many windows
    let nwave = s.tier.pick(1, 4);
    let ncases = s.tier.pick(16, 80);
    let engine = match crate::bundled::bundled_engine() {
        Ok(e) => e.clone(),
        Err(_) => return,
    };
    let corpus = crate::corpus::corpus();
    for k in 0..ncases {
        let h = crate::util::hash64(&(s.seed, "c03-long", k));
        let n = 420 + (h % 281) as usize;
        let start = ((h >> 16) as usize) % (corpus.lines.len() - n);
        let lines: Vec<String> = corpus.lines[start..start + n].to_vec();
        let run = |e: &Engine| -> Result<Vec<f64>, Failure> {
            match catch(|| e.synthesize(lines.as_slice())) {
                Ok(Ok(w)) => Ok(w),
                Ok(Err(err)) => Err(Failure::new("synthesize-error", err.to_string())),
                Err(p) => Err(Failure::new(p.signature(), p.msg)),
            }
        };
        let r: Result<(), Failure> = (|| {
            // parameter trajectories first (no vocoder in between to round a last-bit difference away)
            {
                let traj = |salt: bool| -> Result<crate::engine_util::Trajectories, Failure> {
                    crate::alloc_count::set_alignment_salt(salt);
                    let r = catch(|| engine.generator(lines.as_slice()).map(|g| crate::engine_util::trajectories(&g)));
                    crate::alloc_count::set_alignment_salt(false);
                    match r {
                        Ok(Ok(t)) => Ok(t),
                        Ok(Err(e)) => Err(Failure::new("generator", e.to_string())),
                        Err(p) => Err(Failure::new(p.signature(), p.msg)),
                    }
                };
                let t0 = traj(false)?;
                let t1 = traj(true)?;
                if let Some(d) = super::c01::traj_equal(&t0, &t1) {
                    fail!("not-repeatable", "the parameter trajectories of a long utterance depend on where the allocator places its buffers (offset 0 vs 16 modulo 32): {}", d);
                }
            }
            if k >= nwave {
                return Ok(());
            }
            let reference = run(&engine)?;
            // repeats with the heap shifted by small live allocations of odd sizes in between (the
            // allocator's 16-byte granularity then places later buffers at another alignment)
            let mut pads: Vec<Vec<u8>> = Vec::new();
            for k in 0..3 {
                pads.push(Vec::with_capacity(40 + 16 * k));
                // the harness's allocator places medium-sized buffers at offset 0 (default) or 16
                // modulo 32: the second and third repeat run with the other placement
                crate::alloc_count::set_alignment_salt(k >= 1);
                let again = run(&engine);
                crate::alloc_count::set_alignment_salt(false);
                let again = again?;
                if let Some(i) = bits_equal(&again, &reference) {
                    fail!("not-repeatable", "a repeated call on a long utterance differs at sample {} (repeat {}, buffers placed at offset {} modulo 32)", i, k, if k >= 1 { 16 } else { 0 });
                }
            }
            // other live results of other sizes shift the heap
            let _keep: Vec<Vec<f64>> = (0..3).map(|j| vec![0.0f64; 1000 + 4099 * j]).collect();
            let half = engine.generator(&lines[..20.min(lines.len())]).ok().map(|mut g| {
                let mut b = vec![0.0; g.fperiod()];
                let _ = g.generate_step(&mut b);
                g
            });
            let cl = engine.clone();
            let wc = run(&cl)?;
            if let Some(i) = bits_equal(&wc, &reference) {
                fail!("clone-differs", "a clone renders a long utterance differently at sample {}", i);
            }
            drop(half);
            let results: Vec<Result<Vec<f64>, Failure>> = std::thread::scope(|sc| {
                let hs: Vec<_> = (0..4)
                    .map(|j| {
                        let e = &engine;
                        let run = &run;
                        sc.spawn(move || {
                            let _pad = vec![0u8; 1 + 24 * j];
                            crate::alloc_count::set_alignment_salt(j % 2 == 1);
                            run(e)
                        })
                    })
                    .collect();
                hs.into_iter().map(|h| h.join().unwrap_or_else(|_| Err(Failure::new("thread-panic", "a synthesis thread panicked")))).collect()
            });
            for (j, w) in results.into_iter().enumerate() {
                let w = w?;
                if let Some(i) = bits_equal(&w, &reference) {
                    fail!("concurrent-differs", "thread {} of 4 renders a long utterance differently from the sequential reference at sample {}", j, i);
                }
            }
            Ok(())
        })();
        match r {
            Ok(()) => {
                let mut rep = Report::new();
                rep.nontrivial = true;
                rep.metric("labels", n as f64);
                {
                    // self-check of the allocator switch: a 64 KB buffer lands at offset 16 modulo 32
                    crate::alloc_count::set_alignment_salt(true);
                    let probe: Vec<f64> = Vec::with_capacity(8000);
                    crate::alloc_count::set_alignment_salt(false);
                    rep.metric("salted_buffer_offset_mod_32", (probe.as_ptr() as usize % 32) as f64);
                }
                if let Ok(g) = engine.generator(lines.as_slice()) {
                    let tr = crate::engine_util::trajectories(&g);
                    rep.metric("voiced_frames", tr.lf0.iter().filter(|f| f[0] != -1e10).count() as f64);
                    rep.metric("frames", tr.lf0.len() as f64);
                }
                s.record("long-utterance", LONG_RULE, h, &rep, || json!({ "first_label": start, "labels": n }));
            }
            Err(f) => {
                if s.failure("long-utterance", &f, json!({ "kind": "long-utterance", "first_label": start, "labels": n })) {
                    return;
                }
            }
        }
    }
}

fn extra(s: &mut Session) {
    history_independence(s);
    long_utterances(s);
    // compile-time probe: Engine: Send + Sync + Clone, SpeechGenerator: Send
    let dir = verif_dir().join("harness/probes/send_sync");
    let repo = crate::util::repo_dir();
    let mut cmd = std::process::Command::new("cargo");
    cmd.args(["check", "--offline", "--quiet", "--target-dir"]).arg(verif_dir().join("target/probe"));
    if repo != std::path::Path::new("/repo") {
        cmd.arg("--config").arg(format!("paths=[\"{}\"]", repo.display()));
    }
    let out = cmd
        .current_dir(&dir)
        .env("CARGO_NET_OFFLINE", "true")
        .output();
    let rule = "compile-time probe crate: Engine/Condition/VoiceSet: Send + Sync + Clone, SpeechGenerator: Send (cargo check against the current tree)";
    match out {
        Ok(o) if o.status.success() => {
            let mut r = Report::new();
            r.nontrivial = false;
            s.record("send-sync-probe", rule, 1, &r, || json!("cargo check of harness/probes/send_sync succeeded"));
        }
        Ok(o) => {
            let err = String::from_utf8_lossy(&o.stderr);
            let relevant = err.contains("cannot be shared between threads") || err.contains("cannot be sent between threads") || err.contains("Clone` is not satisfied") || err.contains("is not satisfied");
            if relevant {
                let f = Failure::new("send-sync-probe", format!("the Send/Sync/Clone probe does not compile: {}", err.lines().filter(|l| l.starts_with("error")).take(3).collect::<Vec<_>>().join(" | ")));
                s.failure("send-sync-probe", &f, json!({ "kind": "probe" }));
            } else {
                s.notes.push(format!("send/sync probe could not be built for an unrelated reason (not counted): {}", err.lines().take(5).collect::<Vec<_>>().join(" | ")));
            }
        }
        Err(e) => s.notes.push(format!("send/sync probe could not be started: {}", e)),
    }
}
