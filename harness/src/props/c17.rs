//! C17 All label input forms agree; bad label text is an error.

use serde::Serialize;

use jbonsai::{Engine, EngineError};

use crate::corpus::{gen_label_lines, parse_lines};
use crate::engine_case::{build_engine, gen_voice_choice, VoiceChoice};
use crate::engine_util::bits_equal;
use crate::runner::{DynProp, Failure, Prop, Report, Tier};
use crate::tape::Tape;
use crate::util::catch;
use crate::voice::GenOpts;
use crate::{ensure, fail};

use super::c09::{gen_text_times, timed_lines};
use super::{no_extra, PropertyDef};

pub fn def() -> PropertyDef {
    PropertyDef {
        id: "C17",
        level: "exploration",
        props: |_| vec![Box::new(InputForms) as Box<dyn DynProp>, Box::new(Corruptions) as Box<dyn DynProp>],
        extra: no_extra,
        replay_custom,
        assumptions: &[
            "forms compared bitwise (alignment off, and again with alignment on for the textual forms): &[String], &[&str], &[&str; N] (N in {1,2,3,5,8,13}), Vec<String>, Vec<Label> (parsed by the harness with jlabel), the same lines with blank lines inserted, and with '<start> <end> ' time stamps while alignment is off",
            "corrupted text: the call must return Ok or Err(EngineError::LabelError), never panic; with alignment on only finite times below 10 minutes are used (non-finite times with alignment on are outside the property)",
        ],
    }
}

#[derive(Debug, Clone, Serialize)]
pub struct FormsCase {
    pub voice: VoiceChoice,
    pub source: String,
    pub labels: Vec<String>,
    pub blank_positions: Vec<usize>,
    pub times: Vec<Option<(f64, f64)>>,
    pub speed: f64,
    /// Some(fp): the engine first serves a request with the voice's own frame period, then the
    /// frame period is changed to fp; everything is compared on this USED engine and against a
    /// fresh engine brought to the same settings
    pub used_engine: Option<usize>,
}

pub struct InputForms;

fn synth_array(e: &Engine, l: &[String]) -> Option<Result<Vec<f64>, EngineError>> {
    fn arr<const N: usize>(e: &Engine, l: &[String]) -> Result<Vec<f64>, EngineError> {
        let a: [&str; N] = std::array::from_fn(|i| l[i].as_str());
        e.synthesize(&a)
    }
    Some(match l.len() {
        1 => arr::<1>(e, l),
        2 => arr::<2>(e, l),
        3 => arr::<3>(e, l),
        5 => arr::<5>(e, l),
        8 => arr::<8>(e, l),
        13 => arr::<13>(e, l),
        _ => return None,
    })
}

impl Prop for InputForms {
    type Case = FormsCase;
    fn name(&self) -> String {
        "input-forms".into()
    }
    fn rule(&self) -> String {
        "utterance of n in {1,2,3,5,8,13} (70 %) or 0..13 labels from the corpus sources, engine (generated 90 % / bundled / perturbed), speed in {1, generated}; all input forms must give the bit-identical waveform. Non-trivial: >= 2 labels and blank lines or time stamps present".into()
    }
    fn tape_len(&self, _: Tier) -> usize {
        12000
    }
    fn cases(&self, tier: Tier) -> u32 {
        tier.pick(1_200, 40_000)
    }
    fn decode(&self, t: &mut Tape, _: Tier) -> FormsCase {
        let n = if t.chance(0.7) { *t.pick(&[1usize, 2, 3, 5, 8, 13]) } else { t.below(14) };
        let (labels, src) = gen_label_lines(t, n, false);
        let voice = gen_voice_choice(t, 10, GenOpts::default());
        let nb = t.below(4);
        let blank_positions = (0..nb).map(|_| t.below(n + 1)).collect();
        let times = if t.chance(0.6) { gen_text_times(t, n, 50000.0, 20.0, 5.9e9) } else { vec![None; n] };
        let speed = if t.chance(0.3) { t.log_uniform(0.5, 2.0) } else { 1.0 };
        let used_engine = if t.chance(0.3) { Some(*t.pick(&[80usize, 120, 200, 40, 300])) } else { None };
        FormsCase { voice, source: src.name().into(), labels, blank_positions, times, speed, used_engine }
    }
    fn check(&self, c: &FormsCase) -> Result<Report, Failure> {
        let (mut engine, _) = build_engine(&c.voice)?;
        engine.condition.set_speed(c.speed);
        let lines = &c.labels;
        let fresh_engine = |alignment: bool| -> Result<Engine, Failure> {
            let (mut f, _) = build_engine(&c.voice)?;
            f.condition.set_speed(c.speed);
            if let Some(fp) = c.used_engine {
                f.condition.set_fperiod(fp);
            }
            f.condition.set_phoneme_alignment_flag(alignment);
            Ok(f)
        };
        if let Some(fp) = c.used_engine {
            // an earlier request (time-stamped strings) under the voice's own frame period
            let first = timed_lines(lines, &c.times);
            let n = first.len().min(2);
            if n > 0 {
                let mut warm = engine.clone();
                warm.condition.set_phoneme_alignment_flag(true);
                if warm.generator(&first[..n]).map(|g| crate::engine_util::trajectories(&g).lf0.len() * warm.condition.get_fperiod() <= 200_000).unwrap_or(false) {
                    engine.condition.set_phoneme_alignment_flag(true);
                    let _ = engine.synthesize(&first[..n]);
                    engine.condition.set_phoneme_alignment_flag(false);
                }
            }
            engine.condition.set_fperiod(fp);
        }
        let frames = match catch(|| engine.generator(lines.as_slice()).map(|g| crate::engine_util::trajectories(&g).lf0.len() * engine.condition.get_fperiod())) {
            Ok(Ok(n)) => n,
            Ok(Err(e)) => fail!("generator", "{}", e),
            Err(p) => fail!(p.signature(), "{}", p.msg),
        };
        if frames > 500_000 {
            return Ok(Report::rejected("too-long"));
        }
        let run = |what: &str, r: Result<Vec<f64>, EngineError>| -> Result<Vec<f64>, Failure> { r.map_err(|e| Failure::new("form-error", format!("{} form failed: {}", what, e))) };
        let reference = run("&[String]", engine.synthesize(lines.as_slice()))?;
        let cmp = |what: &str, w: &[f64]| -> Result<(), Failure> {
            if let Some(i) = bits_equal(w, &reference) {
                return Err(Failure::new("form-differs", format!("{} gives a different waveform than &[String] (first difference at sample {}, lengths {} vs {})", what, i, w.len(), reference.len())));
            }
            Ok(())
        };
        let strs: Vec<&str> = lines.iter().map(|s| s.as_str()).collect();
        cmp("a fresh engine with the same settings", &run("fresh engine", fresh_engine(false)?.synthesize(lines.as_slice()))?)?;
        cmp("&[&str]", &run("&[&str]", engine.synthesize(strs.as_slice()))?)?;
        cmp("Vec<String>", &run("Vec<String>", engine.synthesize(lines.clone()))?)?;
        let parsed = match parse_lines(lines) {
            Ok(p) => p,
            Err(e) => fail!("label-parse", "{}", e),
        };
        cmp("Vec<Label>", &run("Vec<Label>", engine.synthesize(parsed))?)?;
        if let Some(r) = synth_array(&engine, lines) {
            cmp("&[&str; N]", &run("&[&str; N]", r)?)?;
        }
        // blank lines
        let mut with_blanks = lines.clone();
        let mut pos = c.blank_positions.clone();
        pos.sort();
        for p in pos.iter().rev() {
            with_blanks.insert((*p).min(with_blanks.len()), String::new());
        }
        cmp("lines with blank lines", &run("blank lines", engine.synthesize(with_blanks.as_slice()))?)?;
        // time stamps are ignored while alignment is off
        let timed = timed_lines(lines, &c.times);
        cmp("lines with time stamps (alignment off)", &run("timed", engine.synthesize(timed.as_slice()))?)?;
        cmp("Vec<String> with time stamps", &run("timed vec", engine.synthesize(timed.clone()))?)?;
        // with alignment ON the time stamps matter, and every textual form must still agree
        let mut aligned = engine.clone();
        aligned.condition.set_phoneme_alignment_flag(true);
        let frames_on = match catch(|| aligned.generator(timed.as_slice()).map(|g| crate::engine_util::trajectories(&g).lf0.len() * aligned.condition.get_fperiod())) {
            Ok(Ok(n)) => n,
            Ok(Err(e)) => fail!("generator", "{}", e),
            Err(p) => fail!(p.signature(), "{}", p.msg),
        };
        if frames_on <= 500_000 {
            let ref_on = run("&[String] (alignment on)", aligned.synthesize(timed.as_slice()))?;
            let cmp_on = |what: &str, w: &[f64]| -> Result<(), Failure> {
                if let Some(i) = bits_equal(w, &ref_on) {
                    return Err(Failure::new("form-differs", format!("with alignment on, {} gives a different waveform than &[String] (first difference at sample {}, lengths {} vs {})", what, i, w.len(), ref_on.len())));
                }
                Ok(())
            };
            let tstrs: Vec<&str> = timed.iter().map(|s| s.as_str()).collect();
            cmp_on("a fresh engine with the same settings", &run("fresh engine on", fresh_engine(true)?.synthesize(timed.as_slice()))?)?;
            cmp_on("&[&str]", &run("&[&str] on", aligned.synthesize(tstrs.as_slice()))?)?;
            cmp_on("Vec<String>", &run("Vec<String> on", aligned.synthesize(timed.clone()))?)?;
            if let Some(r) = synth_array(&aligned, &timed) {
                cmp_on("&[&str; N]", &run("&[&str; N] on", r)?)?;
            }
            // without time stamps the parsed-label form must agree with the textual forms too
            // (alignment on: every label falls back to its model duration)
            let untimed_on = run("&[String] untimed, alignment on", aligned.synthesize(lines.as_slice()))?;
            let parsed_on = run("Vec<Label>, alignment on", aligned.synthesize(parse_lines(lines).map_err(|e| Failure::new("label-parse", e))?))?;
            if let Some(i) = bits_equal(&parsed_on, &untimed_on) {
                fail!("form-differs", "with alignment on and no time stamps, Vec<Label> gives a different waveform than &[String] (first difference at sample {}, lengths {} vs {}, speed {})", i, parsed_on.len(), untimed_on.len(), c.speed);
            }
            // un-stamped labels carry no alignment: with the flag on every label falls back to its
            // model duration, which at speed 1 is exactly what the flag-off request renders
            if c.speed == 1.0 {
                if let Some(i) = bits_equal(&untimed_on, &reference) {
                    fail!("alignment-without-stamps", "un-stamped lines at speed 1: with the alignment flag on the waveform differs from the flag-off one (first difference at sample {}, lengths {} vs {})", i, untimed_on.len(), reference.len());
                }
            }
            let mut tb = timed.clone();
            for p in pos.iter().rev() {
                tb.insert((*p).min(tb.len()), String::new());
            }
            cmp_on("lines with blank lines", &run("blank lines on", aligned.synthesize(tb.clone()))?)?;
            cmp_on("slice with blank lines", &run("blank lines slice on", aligned.synthesize(tb.as_slice()))?)?;
        }
        let mut rep = Report::new();
        let has_times = c.times.iter().any(|t| t.is_some());
        rep.nontrivial = lines.len() >= 2 && (!c.blank_positions.is_empty() || has_times);
        rep.class(format!("n:{}", lines.len()));
        rep.class_if(has_times, "with-times");
        rep.class_if(!c.blank_positions.is_empty(), "with-blank-lines");
        rep.class(c.voice.class());
        rep.class_if(c.used_engine.is_some(), "used-engine-then-frame-period-changed");
        Ok(rep)
    }
}

#[derive(Debug, Clone, Serialize)]
pub struct CorruptCase {
    pub voice: VoiceChoice,
    pub lines: Vec<String>,
    pub ops: Vec<String>,
    pub alignment: bool,
}

pub struct Corruptions;

const TOKENS: &[&str] = &["/A:", "/B:", "/C:", "/D:", "/E:", "/F:", "/G:", "/H:", "/I:", "/J:", "/K:", "^", "-", "+", "=", "_", "!", "#", "@", "|", "%", "&"];

fn char_boundary(s: &str, i: usize) -> usize {
    let mut i = i.min(s.len());
    while !s.is_char_boundary(i) {
        i -= 1;
    }
    i
}

pub fn corrupt_line(t: &mut Tape, line: &str, alignment: bool) -> (String, String) {
    let op = t.below(13);
    let mut s = line.to_string();
    let name = match op {
        0 => {
            let tok = *t.pick(TOKENS);
            if let Some(p) = s.find(tok) {
                s.replace_range(p..p + tok.len(), "");
            }
            "delete-token"
        }
        1 => {
            let tok = *t.pick(TOKENS);
            if let Some(p) = s.find(tok) {
                s.insert_str(p, tok);
            }
            "duplicate-token"
        }
        2 => {
            let p = char_boundary(&s, t.below(s.len() + 1));
            let ch = *t.pick(&['\u{0}', '\u{7f}', '\t', '\n', ' ', 'x', '9', '-', '\u{e9}', '\u{3042}', '\u{1F600}', '/', ':']);
            s.insert(p, ch);
            "insert-char"
        }
        3 => {
            if !s.is_empty() {
                let p = char_boundary(&s, t.below(s.len()));
                let end = char_boundary(&s, (p + 1 + t.below(8)).min(s.len()));
                if end > p {
                    s.replace_range(p..end, "");
                }
            }
            "delete-range"
        }
        4 => {
            s = match t.below(4) {
                0 => format!(" {}", s),
                1 => format!("{} ", s),
                2 => s.replacen(' ', "  ", 1),
                _ => format!("  {}", s),
            };
            "extra-spaces"
        }
        5 => {
            // numeric field overflow
            let (from, to) = *t.pick(&[("/A:", "/A:999"), ("/K:", "/K:300"), ("/F:", "/F:256_"), ("/A:", "/A:-129"), ("/E:", "/E:1e3_"), ("/I:", "/I:+")]);
            s = s.replacen(from, to, 1);
            "numeric-overflow"
        }
        6 => {
            let label = s.rsplit(' ').next().unwrap_or("").to_string();
            let (a, b) = if alignment {
                *t.pick(&[("abc", "5"), ("5", "abc"), ("", ""), ("1,5", "2"), ("0x10", "5"), ("--1", "3"), ("1e", "2")])
            } else {
                *t.pick(&[("abc", "5"), ("1e400", "1e400"), ("-5", "-7"), ("NaN", "NaN"), ("inf", "-inf"), ("1e308", "1e308"), ("", ""), ("5", "abc"), ("18446744073709551616", "99999999999999999999"), ("100000000000000000000", "340282366920938463463374607431768211456"), ("18446744073709551615", "18446744073709551617")])
            };
            s = format!("{} {} {}", a, b, label);
            "bad-times"
        }
        7 => {
            let label = s.rsplit(' ').next().unwrap_or("").to_string();
            s = format!("{} {}", t.below(100000), label);
            "one-time-only"
        }
        8 => {
            s = format!("{} {} ", t.below(1000), t.below(100000) + 1000);
            "times-without-label"
        }
        9 => {
            s = s.chars().rev().collect();
            "reversed"
        }
        10 => {
            let n = t.below(40);
            s = (0..n).map(|_| *t.pick(&['a', '^', '-', '+', '=', '/', 'A', ':', '1', 'x', '_', ' ', '\u{3042}'])).collect();
            "random-text"
        }
        11 => {
            // a line break INSIDE one element (a line read with its terminator, two lines glued)
            s = match t.below(4) {
                0 => format!("{}\n", s),
                1 => format!("{}\r\n", s),
                2 => format!("{}\n{}", s, s),
                _ => "\n".to_string(),
            };
            "line-break-inside-element"
        }
        _ => {
            let p = char_boundary(&s, t.below(s.len() + 1));
            s.truncate(p);
            "truncate"
        }
    };
    (s, name.to_string())
}

impl Prop for Corruptions {
    type Case = CorruptCase;
    fn name(&self) -> String {
        "corrupted-text".into()
    }
    fn rule(&self) -> String {
        "1..6 valid label lines (optionally time stamped), 1..3 of them corrupted by {delete/duplicate a separator token, insert a control/unicode character, delete a range, extra spaces, numeric overflow in a field, unparsable / huge / negative / NaN-spelled times, a single time, times without a label, reversed, random text, truncation}; synthesize and Labels::load_from_strings must return Ok or a label error, never panic. Non-trivial: the call returned an error (the corruption was detected as such)".into()
    }
    fn tape_len(&self, _: Tier) -> usize {
        12000
    }
    fn cases(&self, tier: Tier) -> u32 {
        tier.pick(30_000, 600_000)
    }
    fn decode(&self, t: &mut Tape, _: Tier) -> CorruptCase {
        let n = t.urange(1, 6);
        let (labels, _) = gen_label_lines(t, n, false);
        let alignment = t.chance(0.3);
        let times = if t.chance(0.5) { gen_text_times(t, n, 50000.0, 10.0, 5.9e9) } else { vec![None; n] };
        let mut lines = timed_lines(&labels, &times);
        let k = t.urange(1, 3);
        let mut ops = Vec::new();
        let mut i = t.below(n);
        for _ in 0..k {
            // 60 %: pile the next corruption onto the same line (structural change + character-level change)
            if !t.chance(0.6) {
                i = t.below(n);
            }
            let (s, name) = corrupt_line(t, &lines[i], alignment);
            lines[i] = s;
            ops.push(name);
        }
        let voice = gen_voice_choice(t, 3, GenOpts { max_states: 3, max_depth: 2, ..GenOpts::default() });
        CorruptCase { voice, lines, ops, alignment }
    }
    fn check(&self, c: &CorruptCase) -> Result<Report, Failure> {
        let (mut engine, _) = build_engine(&c.voice)?;
        engine.condition.set_phoneme_alignment_flag(c.alignment);
        let cond = &engine.condition;
        let mut rep = Report::new();
        let direct = match catch(|| jbonsai::label::Labels::load_from_strings(cond.get_sampling_frequency(), cond.get_fperiod(), c.lines.as_slice()).map(|l| l.labels().len())) {
            Ok(r) => r,
            Err(p) => fail!(p.signature(), "Labels::load_from_strings panicked on {:?}: {}", c.lines, p.msg),
        };
        // the line grammar, restated independently of the loader: a line is blank (skipped), or one
        // label, or "<time> <time> <label>" with single spaces; times are decimal floating-point
        // literals; anything else (a lone pair of times, a leading separator, an unparsable time or
        // label) is not a well-formed label line and must be reported as an error
        let well_formed = |line: &str| -> bool {
            use std::str::FromStr;
            if line.is_empty() {
                return true;
            }
            let mut it = line.splitn(3, ' ');
            let a = it.next().unwrap_or("");
            match (it.next(), it.next()) {
                (None, _) => jlabel::Label::from_str(a).is_ok(),
                (Some(_), None) => false,
                (Some(b), Some(rest)) => a.parse::<f64>().is_ok() && b.parse::<f64>().is_ok() && jlabel::Label::from_str(rest).is_ok(),
            }
        };
        let expect_ok = c.lines.iter().all(|l| well_formed(l));
        ensure!(
            direct.is_ok() == expect_ok,
            "label-grammar",
            "Labels::load_from_strings returned {} for text that is {} by the line grammar: {:?}",
            if direct.is_ok() { "Ok" } else { "Err" },
            if expect_ok { "well-formed" } else { "NOT well-formed" },
            c.lines
        );
        // time stamps are counts of 100 ns: every non-negative stamp the loader keeps must be the
        // written decimal value times sampling_rate / (fperiod * 1e7), however it is spelled
        if expect_ok {
            if let Ok(l) = jbonsai::label::Labels::load_from_strings(cond.get_sampling_frequency(), cond.get_fperiod(), c.lines.as_slice()) {
                let rate = cond.get_sampling_frequency() as f64 / (cond.get_fperiod() as f64 * 1e7);
                let mut k = 0;
                for line in c.lines.iter().filter(|l| !l.is_empty()) {
                    let mut it = line.splitn(3, ' ');
                    let a = it.next().unwrap_or("");
                    if let (Some(b), Some(_)) = (it.next(), it.next()) {
                        for (which, tok, got) in [("start", a, l.times()[k].0), ("end", b, l.times()[k].1)] {
                            let v: f64 = tok.parse().unwrap_or(f64::NAN);
                            if v >= 0.0 {
                                let want = v * rate;
                                let ok = if want.is_finite() { (got - want).abs() <= 1e-12 * want.abs() } else { got == want };
                                ensure!(ok, "stamp-units", "the {} stamp {:?} of label {} is kept as {:e} frames, but {} x 100 ns is {:e} frames (rate {:e})", which, tok, k, got, tok, want, rate);
                                rep.class("stamp-checked");
                            }
                        }
                    }
                    k += 1;
                }
            }
        }
        // with alignment on, parsed times must be finite and small, else the case is out of domain
        if c.alignment {
            if let Ok(l) = jbonsai::label::Labels::load_from_strings(cond.get_sampling_frequency(), cond.get_fperiod(), c.lines.as_slice()) {
                if l.times().iter().any(|t| !t.0.is_finite() || !t.1.is_finite() || t.1 > 1.0e6) {
                    return Ok(Report::rejected("nonfinite-times-with-alignment"));
                }
            }
        }
        let r = match catch(|| engine.generator(c.lines.as_slice()).map(|g| crate::engine_util::trajectories(&g).lf0.len())) {
            Ok(r) => r,
            Err(p) => fail!(p.signature(), "Engine::generator panicked on corrupted label text {:?}: {}", c.lines, p.msg),
        };
        // every input form gives the same verdict on the same text
        {
            let slice_ok = r.is_ok();
            let vec_ok = catch(|| engine.generator(c.lines.clone()).is_ok());
            match vec_ok {
                Ok(v) => ensure!(v == slice_ok, "form-verdict", "Vec<String> is {} where the slice form is {} for {:?}", if v { "accepted" } else { "rejected" }, if slice_ok { "accepted" } else { "rejected" }, c.lines),
                Err(p) => fail!(p.signature(), "Engine::generator(Vec<String>) panicked on corrupted label text {:?}: {}", c.lines, p.msg),
            }
            fn arr<const N: usize>(e: &Engine, l: &[String]) -> bool {
                let a: [&str; N] = std::array::from_fn(|i| l[i].as_str());
                e.generator(&a).is_ok()
            }
            let via_array = catch(|| match c.lines.len() {
                1 => Some(arr::<1>(&engine, &c.lines)),
                2 => Some(arr::<2>(&engine, &c.lines)),
                3 => Some(arr::<3>(&engine, &c.lines)),
                4 => Some(arr::<4>(&engine, &c.lines)),
                5 => Some(arr::<5>(&engine, &c.lines)),
                6 => Some(arr::<6>(&engine, &c.lines)),
                _ => None,
            });
            match via_array {
                Ok(Some(v)) => ensure!(v == slice_ok, "form-verdict", "the fixed-size array form is {} where the slice form is {} for {:?}", if v { "accepted" } else { "rejected" }, if slice_ok { "accepted" } else { "rejected" }, c.lines),
                Ok(None) => {}
                Err(p) => fail!(p.signature(), "Engine::generator(&[&str; N]) panicked on corrupted label text {:?}: {}", c.lines, p.msg),
            }
        }
        match (&r, &direct) {
            (Ok(frames), Ok(_)) => {
                if *frames * engine.condition.get_fperiod() <= 200_000 {
                    match catch(|| engine.synthesize(c.lines.as_slice())) {
                        Ok(Ok(_)) => {}
                        Ok(Err(e)) => fail!("inconsistent-result", "generator succeeded but synthesize failed: {}", e),
                        Err(p) => fail!(p.signature(), "synthesize panicked on accepted label text {:?}: {}", c.lines, p.msg),
                    }
                }
                rep.class("accepted");
            }
            (Err(EngineError::LabelError(_)), Err(_)) => {
                rep.class("label-error");
                rep.nontrivial = true;
            }
            (Err(e), Err(_)) => fail!("wrong-error-kind", "bad label text reported as a non-label error: {}", e),
            (Ok(_), Err(e)) => fail!("inconsistent-result", "Labels::load_from_strings rejects the text ({}) but the engine accepts it", e),
            (Err(e), Ok(_)) => fail!("inconsistent-result", "Labels::load_from_strings accepts the text but the engine fails: {}", e),
        }
        for o in &c.ops {
            rep.class(format!("op:{}", o));
        }
        rep.class_if(c.alignment, "alignment:on");
        rep.classes.sort();
        rep.classes.dedup();
        Ok(rep)
    }
}

/// Replay of a libFuzzer `label_text` artifact: {"kind": "label-text-file", "path": ...}
fn replay_custom(s: &mut crate::runner::Session, v: &serde_json::Value) -> bool {
    let Some(path) = v.get("path").and_then(|p| p.as_str()) else { return false };
    let Ok(data) = std::fs::read(path) else {
        eprintln!("cannot read {}", path);
        return false;
    };
    match crate::fuzz_support::label_text_check(&data) {
        Ok(()) => true,
        Err(f) => !s.failure("fuzz-label-text", &f, serde_json::json!({ "kind": "label-text-file", "path": path })),
    }
}
