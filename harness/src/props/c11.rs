//! C11 Voicing follows each stream's MSD threshold.

use serde::Serialize;

use jbonsai::label::Labels;
use jbonsai::model::Models;

use crate::engine_case::{build_engine, gen_engine_case, EngineCase};
use crate::engine_util::{trajectories, Trajectories};
use crate::runner::{DynProp, Failure, Prop, Report, Tier};
use crate::tape::Tape;
use crate::util::catch;
use crate::voice::GenOpts;
use crate::{ensure, fail};

use super::c01::expected_durations;
use super::c05::NODATA;
use super::{no_custom, no_extra, PropertyDef};

pub fn def() -> PropertyDef {
    PropertyDef {
        id: "C11",
        level: "exploration",
        props: |_| vec![Box::new(Voicing) as Box<dyn DynProp>],
        extra: no_extra,
        replay_custom: no_custom,
        assumptions: &[
            "per frame: (hook log-F0 != no-data) <=> (voicing weight of the frame's state > threshold[1]); the weight is computed independently as the weighted sum of the per-voice public lookups (voice sets included); frame -> state mapping from the public duration estimator",
            "thresholds include values exactly equal to a state's voicing weight (strict comparison), its two f64 neighbours and the weight -+ 1e-9",
            "independence: changing threshold[i] or GV weight[i] leaves the other streams' hook trajectories bitwise unchanged",
        ],
    }
}

#[derive(Debug, Clone, Serialize)]
pub struct Case {
    pub base: EngineCase,
    /// pick the F0 threshold equal to the voicing weight of state number `tie_state` (mod states)
    pub tie_state: Option<usize>,
    /// 0: exactly the weight; 1 / 2: the next f64 below / above it; 3 / 4: weight -+ 1e-9
    pub tie_offset: usize,
    pub higher: f64,
    pub other_stream: usize,
    pub other_threshold: f64,
    pub other_gv_weight: f64,
}

pub struct Voicing;

fn gen_traj(e: &jbonsai::Engine, lines: &[String]) -> Result<Trajectories, Failure> {
    match catch(|| e.generator(lines)) {
        Ok(Ok(g)) => Ok(trajectories(&g)),
        Ok(Err(err)) => Err(Failure::new("generator", err.to_string())),
        Err(p) => Err(Failure::new(p.signature(), format!("generator panicked: {}", p.msg))),
    }
}

fn same(a: &[Vec<f64>], b: &[Vec<f64>]) -> bool {
    a.len() == b.len() && a.iter().zip(b).all(|(x, y)| x.len() == y.len() && x.iter().zip(y).all(|(p, q)| p.to_bits() == q.to_bits() || (p.is_nan() && q.is_nan())))
}

impl Prop for Voicing {
    type Case = Case;
    fn name(&self) -> String {
        "voicing-threshold".into()
    }
    fn rule(&self) -> String {
        "engine/utterance/condition as in C01 (1..12 labels; bundled, perturbed and generated voices with different voicing-weight distributions); F0-stream threshold from the generated condition or exactly equal to one state's voicing weight; a second, higher threshold; a change of threshold / GV weight on another stream. Non-trivial: both voiced and unvoiced frames present and a non-default threshold".into()
    }
    fn tape_len(&self, _: Tier) -> usize {
        12000
    }
    fn cases(&self, tier: Tier) -> u32 {
        tier.pick(8_000, 120_000)
    }
    fn decode(&self, t: &mut Tape, _: Tier) -> Case {
        let mut base = gen_engine_case(t, 12, 15, false, GenOpts::default());
        // voice sets: in half of them the F0 stream's parameter weights extrapolate mildly
        // ((1+e, -e, 0..), e <= 0.5 keeps every variance positive because the variants' variances
        // are within [0.7,1.4] of the base voice's), so that an interpolated voicing weight can leave
        // [0,1]; the rule "voiced iff weight > threshold" is then exercised at the threshold 1.0
        if let crate::engine_case::VoiceChoice::GeneratedSet { voices, weights } = &mut base.voice {
            if t.chance(0.5) {
                let e = t.dyadic(3, 32, 64);
                let mut w = vec![0.0; voices.len()];
                if voices.len() >= 3 && t.chance(0.5) {
                    // one weight exactly 1 while two others cancel: still three voices' average
                    w[0] = 1.0;
                    w[1] = e;
                    w[2] = -e;
                } else {
                    w[0] = 1.0 + e;
                    w[1] = -e;
                }
                if (w.iter().sum::<f64>() - 1.0).abs() <= f64::EPSILON {
                    weights[2] = w;
                    if t.chance(0.6) {
                        base.cond.msd_threshold[1] = Some(1.0);
                    }
                }
            }
        }
        let tie_state = if t.chance(0.4) { Some(t.below(1000)) } else { None };
        let tie_offset = t.below(5);
        let higher = t.unit();
        let nstreams = base.cond.gv_weight.len();
        let other_stream = if t.chance(0.5) { 0 } else { nstreams - 1 };
        Case { base, tie_state, tie_offset, higher, other_stream, other_threshold: t.unit(), other_gv_weight: t.uniform(0.0, 2.0) }
    }
    fn check(&self, c: &Case) -> Result<Report, Failure> {
        let (mut engine, _info) = build_engine(&c.base.voice)?;
        c.base.cond.apply(&mut engine);
        let lines = c.base.labels.as_slice();
        let cond0 = engine.condition.clone();
        let labels = match Labels::load_from_strings(cond0.get_sampling_frequency(), cond0.get_fperiod(), lines) {
            Ok(l) => l,
            Err(e) => fail!("label-load", "{}", e),
        };
        let models = Models::new(labels.labels(), &engine.voices, cond0.get_interporation_weight());
        // voicing weight per state, computed independently of Models::stream: the weighted sum of
        // the per-voice lookups (single voice: weight 1)
        let w1: Vec<f64> = cond0.get_interporation_weight().get_parameter(1).to_vec();
        let nvoices = engine.voices.len();
        let nstate = models.nstate();
        let mut msd: Vec<f64> = Vec::new();
        for l in labels.labels() {
            for s in 0..nstate {
                let mut acc = 0.0;
                for (vi, v) in engine.voices.iter().enumerate() {
                    let m = v.stream_models[1].stream_model.get_parameter(s + 2, l).msd.unwrap_or(f64::MAX);
                    if vi == 0 {
                        acc = w1[0] * m;
                    } else {
                        acc += w1[vi] * m;
                    }
                }
                msd.push(acc);
            }
        }
        let is_set = nvoices > 1;
        if let Some(k) = c.tie_state {
            if !msd.is_empty() && !is_set {
                let m = msd[k % msd.len()];
                let thr = match c.tie_offset {
                    0 => m,
                    1 => f64::from_bits(m.to_bits().wrapping_sub(1)),
                    2 => f64::from_bits(m.to_bits() + 1),
                    3 => m - 1e-9,
                    _ => m + 1e-9,
                };
                if m > 0.0 && m.is_finite() {
                    engine.condition.set_msd_threshold(1, thr);
                }
            }
        }
        let thr = engine.condition.get_msd_threshold(1);
        let (durations, _, _) = expected_durations(&engine, &c.base.labels, false)?;
        ensure!(durations.len() == msd.len(), "harness", "state count mismatch");
        let tr = gen_traj(&engine, lines)?;
        let frames: usize = durations.iter().sum();
        ensure!(tr.lf0.len() == frames, "frames", "{} frames, expected {}", tr.lf0.len(), frames);
        let mut t = 0usize;
        let mut nvoiced = 0usize;
        for (s, d) in durations.iter().enumerate() {
            let want = msd[s] > thr;
            // in a voice set the interpolated weight is only specified up to rounding
            let ambiguous = is_set && (msd[s] - thr).abs() <= 1e-12;
            for _ in 0..*d {
                let got = tr.lf0[t][0] != NODATA;
                ensure!(
                    got == want || ambiguous,
                    "voicing-rule",
                    "frame {} (state {}): voicing weight {} vs threshold {} -> expected {}, generated log-F0 {}",
                    t, s, msd[s], thr, if want { "voiced" } else { "unvoiced" }, tr.lf0[t][0]
                );
                nvoiced += got as usize;
                t += 1;
            }
        }
        // raising the threshold only turns frames unvoiced
        let thr2 = thr + (1.0 - thr) * c.higher;
        let mut up = engine.clone();
        up.condition.set_msd_threshold(1, thr2);
        let tr_up = gen_traj(&up, lines)?;
        ensure!(tr_up.lf0.len() == frames, "frames", "frame count changes with the threshold");
        for (i, (a, b)) in tr.lf0.iter().zip(&tr_up.lf0).enumerate() {
            ensure!(!(a[0] == NODATA && b[0] != NODATA), "voicing-monotone", "frame {}: unvoiced at threshold {} but voiced at the higher threshold {}", i, thr, thr2);
        }
        ensure!(same(&tr.spectrum, &tr_up.spectrum) && same(&tr.lpf, &tr_up.lpf), "threshold-independence", "changing the F0 stream's threshold changed the spectrum or low-pass trajectory");
        // GV weight of the F0 stream does not touch the others
        let mut gvw = engine.clone();
        gvw.condition.set_gv_weight(1, c.other_gv_weight);
        let tr_g = gen_traj(&gvw, lines)?;
        ensure!(same(&tr.spectrum, &tr_g.spectrum) && same(&tr.lpf, &tr_g.lpf), "threshold-independence", "changing the F0 stream's GV weight changed the spectrum or low-pass trajectory");
        let v0: Vec<bool> = tr.lf0.iter().map(|f| f[0] != NODATA).collect();
        let v1: Vec<bool> = tr_g.lf0.iter().map(|f| f[0] != NODATA).collect();
        ensure!(v0 == v1, "threshold-independence", "changing the F0 stream's GV weight changed the voicing pattern");
        // another stream's threshold / GV weight leaves the F0 trajectory (and the third stream) alone
        let o = c.other_stream;
        if o != 1 {
            let mut other = engine.clone();
            other.condition.set_msd_threshold(o, c.other_threshold);
            other.condition.set_gv_weight(o, c.other_gv_weight);
            let tr_o = gen_traj(&other, lines)?;
            ensure!(same(&tr.lf0, &tr_o.lf0), "threshold-independence", "changing threshold/GV weight of stream {} changed the log-F0 trajectory", o);
            if o == 0 {
                ensure!(same(&tr.lpf, &tr_o.lpf), "threshold-independence", "changing threshold/GV weight of stream 0 changed the low-pass trajectory");
            } else {
                ensure!(same(&tr.spectrum, &tr_o.spectrum), "threshold-independence", "changing threshold/GV weight of stream {} changed the spectrum trajectory", o);
            }
            // a non-MSD stream has no unvoiced frames whatever its threshold
            let other_traj = if o == 0 { &tr_o.spectrum } else { &tr_o.lpf };
            ensure!(other_traj.iter().all(|f| f.iter().all(|x| *x != NODATA)), "nonmsd-threshold", "stream {} (not multi-space) got no-data frames at threshold {}", o, c.other_threshold);
        }
        let mut rep = Report::new();
        rep.nontrivial = nvoiced > 0 && nvoiced < frames && thr != 0.5;
        rep.class(c.base.voice.class());
        rep.class_if(c.tie_state.is_some(), "threshold-equals-a-weight");
        rep.class_if(nvoiced == 0, "all-unvoiced");
        rep.class_if(nvoiced == frames && frames > 0, "all-voiced");
        Ok(rep)
    }
}
