//! C12 Global variance restores the model's variance.

use serde::Serialize;

use jbonsai::label::Labels;
use jbonsai::mlpg_adjust::MlpgAdjust;
use jbonsai::model::{ModelStream, Models};

use crate::corpus::{corpus, parse_lines};
use crate::engine_case::{build_engine, VoiceChoice, NPERTURBED};
use crate::engine_util::{trajectories, Trajectories};
use crate::hts_reader::any_glob;
use crate::runner::{DynProp, Failure, Prop, Report, Tier};
use crate::tape::Tape;
use crate::util::catch;
use crate::voice::bundled_file_voice;
use crate::{ensure, fail};

use super::c01::expected_durations;
use super::c05::NODATA;
use super::{no_custom, no_extra, PropertyDef};

pub fn def() -> PropertyDef {
    PropertyDef {
        id: "C12",
        level: "exploration",
        props: |_| vec![Box::new(GlobalVariance) as Box<dyn DynProp>, Box::new(NoEligibleFrame) as Box<dyn DynProp>, Box::new(GvSwitchedOff) as Box<dyn DynProp>],
        extra: no_extra,
        replay_custom: no_custom,
        assumptions: &[
            "GV-eligible frames = voiced frames of labels that match none of the voice's GV_OFF_CONTEXT patterns (evaluated with the harness's own glob matcher on the label text); GV means computed as the GV-weighted sum of the per-voice GV Gaussians (independent of Models::gv)",
            "with >= 100 eligible frames: variance / (weight x GV mean) in [0.8,1.2] per coefficient (measured [0.947,1.051]) and variance non-decreasing in the weight (relative slack 1e-9)",
            "no eligible frame: the hook trajectory equals the public MlpgAdjust solution with gv: None, bitwise; the non-GV stream is bitwise unaffected by its GV weight",
        ],
    }
}

#[derive(Debug, Clone, Serialize)]
pub struct Case {
    pub voice: VoiceChoice,
    /// Some(f): the engine is a SET of `voice` and a copy of the bundled voice whose GV means are
    /// scaled by f, with the given (different) parameter and GV interpolation weights
    pub gv_partner: Option<(f64, Vec<f64>, Vec<f64>)>,
    pub source: String,
    pub labels: Vec<String>,
    pub weights: Vec<f64>,
    /// patterns ADDED to the voice's GV-off contexts (a perturbed copy may switch GV off in more
    /// contexts than silence and pause: here the phonemes next to a pause)
    #[serde(default)]
    pub extra_gv_off: Vec<String>,
}

/// The voice's GV-off patterns for this case (file order, then the added ones).
fn gv_off_patterns(c: &Case) -> Vec<String> {
    let mut v = bundled_file_voice().gv_off_context.clone();
    v.extend(c.extra_gv_off.iter().cloned());
    v
}

fn with_gv_off(v: std::sync::Arc<jbonsai::model::Voice>, patterns: &[String]) -> Result<std::sync::Arc<jbonsai::model::Voice>, Failure> {
    let refs: Vec<&str> = patterns.iter().map(|s| s.as_str()).collect();
    let q = jbonsai::model::voice::question::Question::parse(&refs).map_err(|e| Failure::new("harness-gv-off-context", format!("{:?}", e)))?;
    let mut voice = (*v).clone();
    voice.metadata.gv_off_context = q;
    Ok(std::sync::Arc::new(voice))
}

fn gv_partner_voice(f: f64) -> Result<std::sync::Arc<jbonsai::model::Voice>, Failure> {
    use std::collections::HashMap;
    use std::sync::{Arc, Mutex, OnceLock};
    static CACHE: OnceLock<Mutex<HashMap<u64, Arc<jbonsai::model::Voice>>>> = OnceLock::new();
    let m = CACHE.get_or_init(Default::default);
    if let Some(v) = m.lock().unwrap().get(&f.to_bits()) {
        return Ok(v.clone());
    }
    let tmp = crate::voice::TempVoice(crate::voice::write_temp(&crate::voice::gv_scaled_bundled(f), "c12"));
    let v = jbonsai::model::load_htsvoice_file(&tmp.0).map_err(|e| Failure::new("load-valid-voice", e.to_string()))?;
    let v = Arc::new(v);
    m.lock().unwrap().insert(f.to_bits(), v.clone());
    Ok(v)
}

fn c12_engine(c: &Case) -> Result<jbonsai::Engine, Failure> {
    if c.gv_partner.is_none() && c.extra_gv_off.is_empty() {
        return Ok(build_engine(&c.voice)?.0);
    }
    let mut first = match &c.voice {
        VoiceChoice::Perturbed(k) => crate::engine_case::perturbed_voice(*k)?,
        _ => crate::engine_case::bundled_voice_arc()?,
    };
    let patterns = gv_off_patterns(c);
    if !c.extra_gv_off.is_empty() {
        first = with_gv_off(first, &patterns)?;
    }
    let Some((f, wp, wg)) = &c.gv_partner else { return crate::engine_case::engine_from_voices(vec![first]) };
    let mut partner = gv_partner_voice(*f)?;
    if !c.extra_gv_off.is_empty() {
        partner = with_gv_off(partner, &patterns)?;
    }
    let mut e = crate::engine_case::engine_from_voices(vec![first, partner])?;
    let iw = e.condition.get_interporation_weight_mut();
    let bad = |e: jbonsai::model::interporation_weight::WeightError| Failure::new("valid-weights-rejected", e.to_string());
    iw.set_duration(wp).map_err(bad)?;
    for i in 0..3 {
        iw.set_parameter(i, wp).map_err(bad)?;
        iw.set_gv(i, wg).map_err(bad)?;
    }
    Ok(e)
}

fn gen_traj(e: &jbonsai::Engine, lines: &[String]) -> Result<Trajectories, Failure> {
    match catch(|| e.generator(lines)) {
        Ok(Ok(g)) => Ok(trajectories(&g)),
        Ok(Err(err)) => Err(Failure::new("generator", err.to_string())),
        Err(p) => Err(Failure::new(p.signature(), format!("generator panicked: {}", p.msg))),
    }
}

fn variance(v: &[f64]) -> f64 {
    let n = v.len() as f64;
    let m = v.iter().sum::<f64>() / n;
    v.iter().map(|x| (x - m) * (x - m)).sum::<f64>() / n
}

pub struct GlobalVariance;

impl Prop for GlobalVariance {
    type Case = Case;
    fn name(&self) -> String {
        "gv-variance".into()
    }
    fn rule(&self) -> String {
        "bundled voice or one of its PDF-perturbed copies - in 30 % of the cases combined with a copy whose GV means are scaled by 0.5..3, using different parameter and GV interpolation weights -; in 25 % with GV additionally switched off next to pauses (patterns on the neighbouring phoneme added to the voice's GV-off contexts) -; 10..60 corpus labels (consecutive window or shuffled lines); three sorted GV weights in [0.25,2], the spectrum taking them in ascending and log-F0 in descending order (each stream its own weight); variance of every coefficient over the eligible frames vs weight x GV mean, monotone in the weight; the low-pass stream (no GV) bitwise unaffected by its GV weight. Non-trivial: >= 100 eligible frames in both streams".into()
    }
    fn tape_len(&self, _: Tier) -> usize {
        80
    }
    fn cases(&self, tier: Tier) -> u32 {
        tier.pick(800, 12_000)
    }
    fn decode(&self, t: &mut Tape, _: Tier) -> Case {
        let c = corpus();
        let n = t.urange(10, 60);
        let (labels, source) = if t.chance(0.6) {
            let s = t.below(c.lines.len() - n);
            (c.lines[s..s + n].to_vec(), "consecutive")
        } else {
            ((0..n).map(|_| t.pick(&c.lines).clone()).collect(), "shuffled")
        };
        let voice = if t.chance(0.5) { VoiceChoice::Bundled } else { VoiceChoice::Perturbed(t.below(NPERTURBED)) };
        let mut weights: Vec<f64> = (0..3)
            .map(|_| match t.weighted(&[4, 1]) {
                0 => t.uniform(0.25, 2.0),
                _ => *t.pick(&[1.0, 0.25, 2.0, 0.5]),
            })
            .collect();
        weights.sort_by(|a, b| a.partial_cmp(b).unwrap());
        let gv_partner = if t.chance(0.3) {
            let f = *t.pick(&[2.0, 0.5, 1.5, 3.0]);
            let a = t.dyadic(0, 64, 64);
            let b = t.dyadic(0, 64, 64);
            Some((f, vec![a, 1.0 - a], vec![b, 1.0 - b]))
        } else {
            None
        };
        // a quarter of the cases: GV is also off for the phonemes next to a pause / silence (contexts
        // that depend on a NEIGHBOUR, so the same phoneme is eligible in one label and not in another)
        let extra_gv_off: Vec<String> = if t.chance(0.25) {
            let pool = ["*+pau=*", "*+sil=*", "*^pau-*", "*^sil-*"];
            let k = t.urange(1, 2);
            let mut v: Vec<String> = (0..k).map(|_| t.pick(&pool).to_string()).collect();
            v.dedup();
            v
        } else {
            vec![]
        };
        Case { voice, gv_partner, source: source.into(), labels, weights, extra_gv_off }
    }
    fn check(&self, c: &Case) -> Result<Report, Failure> {
        let engine = c12_engine(c)?;
        let lines = c.labels.as_slice();
        let labels = match parse_lines(&c.labels) {
            Ok(l) => l,
            Err(e) => fail!("label-parse", "{}", e),
        };
        let gv_off = &gv_off_patterns(c);
        let (durations, nstate, _) = expected_durations(&engine, &c.labels, false)?;
        // per frame: label eligible?
        let mut frame_label_ok = Vec::new();
        for (li, l) in labels.iter().enumerate() {
            let ok = !any_glob(gv_off, &l.to_string());
            let frames: usize = durations[li * nstate..(li + 1) * nstate].iter().sum();
            frame_label_ok.extend(std::iter::repeat(ok).take(frames));
        }
        let models = Models::new(&labels, &engine.voices, engine.condition.get_interporation_weight());
        // GV mean per coefficient, computed independently of Models::gv: the weighted sum (GV
        // weights of that stream) of the per-voice GV Gaussians selected by the first label
        let _ = &models;
        let gv_means: Vec<Vec<f64>> = (0..2)
            .map(|i| {
                let w = engine.condition.get_interporation_weight().get_gv(i).to_vec();
                let per: Vec<Vec<f64>> = engine
                    .voices
                    .iter()
                    .map(|v| v.stream_models[i].gv_model.as_ref().map(|g| g.get_parameter(2, &labels[0]).parameters.iter().map(|m| m.0).collect()).unwrap_or_default())
                    .collect();
                if per.iter().any(|p| p.is_empty()) {
                    return vec![];
                }
                (0..per[0].len()).map(|k| per.iter().zip(&w).map(|(p, w)| w * p[k]).sum()).collect()
            })
            .collect();
        ensure!(!gv_means[0].is_empty() && !gv_means[1].is_empty(), "gv-missing", "bundled voice must have GV for streams 0 and 1");
        let mut prev: Option<([f64; 2], Vec<Vec<f64>>)> = None;
        let mut rep = Report::new();
        let mut base_lpf: Option<Vec<Vec<f64>>> = None;
        let mut eligible_counts = (0usize, 0usize);
        // each GV stream gets its OWN weight: the spectrum walks the sorted weights upwards, log-F0
        // downwards (the law is per stream; equal weights everywhere would hide a mixed-up index)
        let nw = c.weights.len();
        for k in 0..nw {
            let w = c.weights[k];
            let per_stream = [c.weights[k], c.weights[nw - 1 - k]];
            let mut e = engine.clone();
            e.condition.set_gv_weight(0, per_stream[0]);
            e.condition.set_gv_weight(1, per_stream[1]);
            e.condition.set_gv_weight(2, w);
            let tr = gen_traj(&e, lines)?;
            ensure!(tr.lf0.len() == frame_label_ok.len(), "frames", "{} frames, expected {}", tr.lf0.len(), frame_label_ok.len());
            match &base_lpf {
                None => base_lpf = Some(tr.lpf.clone()),
                Some(b) => {
                    let same = b.len() == tr.lpf.len() && b.iter().zip(&tr.lpf).all(|(x, y)| x.iter().zip(y).all(|(p, q)| p.to_bits() == q.to_bits()));
                    ensure!(same, "gv-nongv-stream", "the low-pass stream (no GV) changes with its GV weight {}", w);
                }
            }
            let mut vars: Vec<Vec<f64>> = Vec::new();
            for (si, traj) in [(0usize, &tr.spectrum), (1usize, &tr.lf0)] {
                let elig: Vec<usize> = (0..traj.len()).filter(|t| frame_label_ok[*t] && traj[*t][0] != NODATA).collect();
                if si == 0 {
                    eligible_counts.0 = elig.len();
                } else {
                    eligible_counts.1 = elig.len();
                }
                let dims = gv_means[si].len();
                let mut v = Vec::with_capacity(dims);
                for k in 0..dims {
                    let vals: Vec<f64> = elig.iter().map(|t| traj[*t][k]).collect();
                    if vals.len() >= 100 {
                        let var = variance(&vals);
                        let w = per_stream[si];
                        let ratio = var / (w * gv_means[si][k]);
                        rep.metric("max_abs_log_ratio", ratio.ln().abs());
                        ensure!(
                            (0.8..=1.2).contains(&ratio),
                            "gv-variance",
                            "stream {} coefficient {}: variance over {} eligible frames is {:e} = {:.3} x (weight {} x GV mean {:e})",
                            si, k, vals.len(), var, ratio, w, gv_means[si][k]
                        );
                        v.push(var);
                    } else {
                        v.push(f64::NAN);
                    }
                }
                vars.push(v);
            }
            if let Some((pws, pv)) = &prev {
                for si in 0..2 {
                    for k in 0..vars[si].len() {
                        // (a, wa) = the observation at the smaller weight of this stream
                        let ((a, wa), (b, wb)) = if per_stream[si] > pws[si] { ((pv[si][k], pws[si]), (vars[si][k], per_stream[si])) } else { ((vars[si][k], per_stream[si]), (pv[si][k], pws[si])) };
                        if a.is_finite() && b.is_finite() && wb > wa {
                            ensure!(b >= a * (1.0 - 1e-9), "gv-monotone", "stream {} coefficient {}: variance {:e} at weight {} but {:e} at the smaller weight {}", si, k, b, wb, a, wa);
                        }
                    }
                }
            }
            prev = Some((per_stream, vars));
        }
        rep.nontrivial = eligible_counts.0 >= 100 && eligible_counts.1 >= 100;
        rep.class(c.voice.class());
        rep.class_if(c.gv_partner.is_some(), "voice-set-with-different-gv");
        rep.class_if(!c.extra_gv_off.is_empty(), "gv-off-next-to-pauses");
        rep.class(format!("source:{}", c.source));
        rep.class_if(eligible_counts.0 >= 100, "spectrum>=100-eligible");
        rep.class_if(eligible_counts.1 >= 100, "lf0>=100-eligible");
        Ok(rep)
    }
}

#[derive(Debug, Clone, Serialize)]
pub struct SilCase {
    pub voice: VoiceChoice,
    pub labels: Vec<String>,
    pub weight: f64,
}

pub struct NoEligibleFrame;

impl Prop for NoEligibleFrame {
    type Case = SilCase;
    fn name(&self) -> String {
        "gv-no-eligible-frame".into()
    }
    fn rule(&self) -> String {
        "utterances of 1..8 silence/pause labels only (corpus lines matching the GV-off contexts), GV weight in [0.25,2]: the spectrum and log-F0 hook trajectories equal the public MlpgAdjust solution computed with gv: None, bitwise. Non-trivial: every case; distinct by (voice, labels, weight)".into()
    }
    fn tape_len(&self, _: Tier) -> usize {
        24
    }
    fn cases(&self, tier: Tier) -> u32 {
        tier.pick(600, 10_000)
    }
    fn decode(&self, t: &mut Tape, _: Tier) -> SilCase {
        static SIL: std::sync::OnceLock<Vec<String>> = std::sync::OnceLock::new();
        let sil = SIL.get_or_init(|| {
            let gv_off = &bundled_file_voice().gv_off_context;
            corpus().lines.iter().filter(|l| any_glob(gv_off, l)).cloned().collect()
        });
        let n = t.urange(1, 8);
        let labels = (0..n).map(|_| t.pick(sil).clone()).collect();
        let voice = if t.chance(0.5) { VoiceChoice::Bundled } else { VoiceChoice::Perturbed(t.below(NPERTURBED)) };
        SilCase { voice, labels, weight: t.uniform(0.25, 2.0) }
    }
    fn check(&self, c: &SilCase) -> Result<Report, Failure> {
        let (mut engine, _info) = build_engine(&c.voice)?;
        engine.condition.set_gv_weight(0, c.weight);
        engine.condition.set_gv_weight(1, c.weight);
        let tr = gen_traj(&engine, c.labels.as_slice())?;
        let cond = &engine.condition;
        let labels = match Labels::load_from_strings(cond.get_sampling_frequency(), cond.get_fperiod(), c.labels.as_slice()) {
            Ok(l) => l,
            Err(e) => fail!("label-load", "{}", e),
        };
        let (durations, _, _) = expected_durations(&engine, &c.labels, false)?;
        let models = Models::new(labels.labels(), &engine.voices, cond.get_interporation_weight());
        for (si, got) in [(0usize, &tr.spectrum), (1usize, &tr.lf0)] {
            let ms = models.model_stream(si);
            ensure!(ms.gv.as_ref().map(|g| g.1.iter().all(|s| !*s)).unwrap_or(false), "gv-off-context", "stream {}: silence labels must switch GV off for all their states", si);
            let plain = ModelStream { vector_length: ms.vector_length, stream: ms.stream, gv: None, windows: ms.windows };
            let want = MlpgAdjust::new(c.weight, cond.get_msd_threshold(si), plain).create(&durations);
            let same = want.len() == got.len()
                && want.iter().zip(got.iter()).all(|(x, y)| x.len() == y.len() && x.iter().zip(y).all(|(p, q)| p == q || ((p - q).abs() <= 1e-9 * p.abs().max(q.abs()).max(1e-6) && *p != NODATA && *q != NODATA)));
            ensure!(same, "gv-no-eligible", "stream {}: with no GV-eligible frame the trajectory differs from the plain maximum-likelihood solution (weight {})", si, c.weight);
        }
        let mut rep = Report::new();
        rep.nontrivial = true;
        rep.class(c.voice.class());
        Ok(rep)
    }
}

/// A copy of the bundled voice (or of a perturbed copy) in which the USE_GV flag of one or both GV
/// streams is cleared while the GV_PDF / GV_TREE positions stay in the header: that stream is "a
/// stream without GV".
#[derive(Debug, Clone, Serialize)]
pub struct OffCase {
    pub perturbed: Option<usize>,
    /// bit 0: spectrum, bit 1: log-F0
    pub off_mask: usize,
    pub labels: Vec<String>,
    pub weights: Vec<f64>,
}

fn switched_off_voice(perturbed: Option<usize>, mask: usize) -> Result<std::sync::Arc<jbonsai::model::Voice>, Failure> {
    use std::collections::HashMap;
    use std::sync::{Arc, Mutex, OnceLock};
    static CACHE: OnceLock<Mutex<HashMap<(Option<usize>, usize), Arc<jbonsai::model::Voice>>>> = OnceLock::new();
    let m = CACHE.get_or_init(Default::default);
    if let Some(v) = m.lock().unwrap().get(&(perturbed, mask)) {
        return Ok(v.clone());
    }
    let mut bytes = match perturbed {
        Some(k) => crate::engine_case::perturbed_bytes(k).to_vec(),
        None => crate::bundled::bundled_bytes().to_vec(),
    };
    let names: Vec<String> = bundled_file_voice().streams.iter().map(|s| s.name.clone()).collect();
    for (bit, name) in names.iter().enumerate().take(2) {
        if mask & (1 << bit) != 0 {
            let key = format!("USE_GV[{}]:1", name);
            let Some(pos) = bytes.windows(key.len()).position(|w| w == key.as_bytes()) else {
                return Err(Failure::new("harness", format!("bundled header has no {}", key)));
            };
            bytes[pos + key.len() - 1] = b'0';
        }
    }
    let tmp = crate::voice::TempVoice(crate::voice::write_temp(&bytes, "c12off"));
    let v = Arc::new(jbonsai::model::load_htsvoice_file(&tmp.0).map_err(|e| Failure::new("load-valid-voice", format!("a copy of the bundled voice with USE_GV cleared is rejected: {}", e)))?);
    m.lock().unwrap().insert((perturbed, mask), v.clone());
    Ok(v)
}

pub struct GvSwitchedOff;

impl Prop for GvSwitchedOff {
    type Case = OffCase;
    fn name(&self) -> String {
        "gv-switched-off".into()
    }
    fn rule(&self) -> String {
        "copies of the bundled voice / its perturbed copies whose header clears USE_GV for the spectrum and/or the log-F0 stream (the GV_PDF / GV_TREE positions stay in the file); 3..40 corpus labels; two GV weights in [0.25,2]: a stream whose flag is cleared must be bitwise unaffected by its GV weight and equal the public MlpgAdjust solution with gv: None; the file must load. Non-trivial: always (a stream without GV that has GV data in the file)".into()
    }
    fn tape_len(&self, _: Tier) -> usize {
        200
    }
    fn cases(&self, tier: Tier) -> u32 {
        tier.pick(300, 6_000)
    }
    fn decode(&self, t: &mut Tape, _: Tier) -> OffCase {
        let c = corpus();
        let n = t.urange(3, 40);
        let labels = if t.chance(0.6) {
            let s = t.below(c.lines.len() - n);
            c.lines[s..s + n].to_vec()
        } else {
            (0..n).map(|_| t.pick(&c.lines).clone()).collect()
        };
        let perturbed = if t.chance(0.5) { None } else { Some(t.below(NPERTURBED)) };
        let off_mask = 1 + t.below(3);
        let weights = vec![t.uniform(0.25, 2.0), *t.pick(&[1.0, 2.0, 0.25, 0.5, 1.5])];
        OffCase { perturbed, off_mask, labels, weights }
    }
    fn check(&self, c: &OffCase) -> Result<Report, Failure> {
        let voice = switched_off_voice(c.perturbed, c.off_mask)?;
        let engine = crate::engine_case::engine_from_voices(vec![voice])?;
        let cond = &engine.condition;
        let labels = match Labels::load_from_strings(cond.get_sampling_frequency(), cond.get_fperiod(), c.labels.as_slice()) {
            Ok(l) => l,
            Err(e) => fail!("label-load", "{}", e),
        };
        let (durations, _, _) = expected_durations(&engine, &c.labels, false)?;
        let models = Models::new(labels.labels(), &engine.voices, cond.get_interporation_weight());
        let mut first: Option<Trajectories> = None;
        for &w in &c.weights {
            let mut e = engine.clone();
            for i in 0..3 {
                e.condition.set_gv_weight(i, w);
            }
            let tr = gen_traj(&e, c.labels.as_slice())?;
            for si in 0..2usize {
                if c.off_mask & (1 << si) == 0 {
                    continue;
                }
                let got = if si == 0 { &tr.spectrum } else { &tr.lf0 };
                let ms = models.model_stream(si);
                let plain = ModelStream { vector_length: ms.vector_length, stream: ms.stream, gv: None, windows: ms.windows };
                let want = MlpgAdjust::new(w, e.condition.get_msd_threshold(si), plain).create(&durations);
                let same = want.len() == got.len()
                    && want.iter().zip(got.iter()).all(|(x, y)| x.len() == y.len() && x.iter().zip(y).all(|(p, q)| p == q || ((p - q).abs() <= 1e-9 * p.abs().max(q.abs()).max(1e-6) && *p != NODATA && *q != NODATA)));
                ensure!(same, "gv-nongv-stream", "stream {} has USE_GV cleared in the header but its trajectory differs from the plain maximum-likelihood solution at GV weight {}", si, w);
                if let Some(f) = &first {
                    let prev = if si == 0 { &f.spectrum } else { &f.lf0 };
                    let same = prev.len() == got.len() && prev.iter().zip(got.iter()).all(|(x, y)| x.iter().zip(y).all(|(p, q)| p.to_bits() == q.to_bits()));
                    ensure!(same, "gv-nongv-stream", "stream {} has USE_GV cleared in the header but its trajectory changes with the GV weight ({} vs {})", si, c.weights[0], w);
                }
            }
            if first.is_none() {
                first = Some(tr);
            }
        }
        let mut rep = Report::new();
        rep.nontrivial = true;
        rep.class(format!("cleared:{}", ["", "spectrum", "lf0", "both"][c.off_mask]));
        rep.class(if c.perturbed.is_some() { "perturbed" } else { "bundled" });
        Ok(rep)
    }
}
