//! C20 Condition setters clamp to their documented ranges and round-trip.

use serde::Serialize;

use jbonsai::Condition;

use crate::bundled::bundled_engine;
use crate::runner::{DynProp, Failure, Prop, Report, Tier};
use crate::tape::Tape;
use crate::{ensure, fail};

use super::{no_custom, no_extra, PropertyDef};

pub fn def() -> PropertyDef {
    PropertyDef {
        id: "C20",
        level: "exploration",
        props: |_| vec![Box::new(SetterHistory) as Box<dyn DynProp>, Box::new(UnloadedCondition) as Box<dyn DynProp>],
        extra: no_extra,
        replay_custom: no_custom,
        assumptions: &[
            "reference model = the documented clamps (doc comments of the setters and the property text), compared with ==",
            "arguments are finite; NaN/inf are outside the property's quantifier",
        ],
    }
}

#[derive(Debug, Clone, Copy, Serialize)]
pub enum Op {
    SamplingFrequency(usize),
    Fperiod(usize),
    Volume(f64),
    MsdThreshold(usize, f64),
    GvWeight(usize, f64),
    Speed(f64),
    Alignment(bool),
    Alpha(f64),
    Beta(f64),
    HalfTone(f64),
    /// clone the condition and keep the copy alive until the end of the history
    CloneKeep,
    /// continue on a clone; the previous object is kept alive
    CloneSwap,
    /// drop all kept copies
    DropCopies,
    /// write back what a getter returns: `set_x(get_x())` for the setting family k (0 volume, 1 speed,
    /// 2 alpha, 3 beta, 4 half tone, 5 every threshold, 6 every GV weight, 7 rate, 8 frame period).
    /// For the exact getters this changes nothing; the volume getter is lossy (dB of a stored
    /// linear gain), so the written-back value becomes the new volume
    WriteBack(usize),
    /// continue on a copy made with `Clone::clone_from` into another Condition object - a
    /// never-loaded `Condition::default()` (no per-stream tables yet) or an earlier kept copy
    CloneFrom,
    /// a valid interpolation-weight update (equal weights) on slot 0 = duration, 1 = parameter
    /// weights of the stream, 2 = GV weights of the stream: another setter family on the same
    /// Condition, which must leave every range-limited setting alone
    InterpolationWeights(usize, usize),
    /// Condition::load_model on the engine's own voices: the voice-derived settings (rate, frame
    /// period, thresholds, GV weights, alpha) return to the voice's defaults, the caller's settings
    /// (volume, speed, alignment flag, beta, half tone) stay
    Reload,
}

#[derive(Debug, Clone, Serialize)]
pub struct Case {
    pub voice: String,
    pub ops: Vec<Op>,
}

pub fn special_f64(t: &mut Tape) -> f64 {
    let ulp1 = f64::EPSILON;
    match t.weighted(&[2, 3, 3, 2, 2]) {
        0 => *t.pick(&[0.0, 1.0, 0.5, -0.0, 1e-6]),
        1 => *t.pick(&[
            5e-324,
            -5e-324,
            f64::MIN_POSITIVE,
            -f64::MIN_POSITIVE,
            1e-7,
            -1e-7,
            1e-6 - 1e-22,
            1e-6 + 1e-22,
            9.99e-7,
            1.0 - ulp1 / 2.0,
            1.0 + ulp1,
            -1.0,
            2.0,
            1e300,
            -1e300,
            f64::MAX,
            f64::MIN,
            // values that have a meaning somewhere inside the library (no-data marker, log-F0 limits,
            // default alpha, half-tone unit): as setter arguments they are ordinary numbers
            -1.0e10,
            1.0e10,
            2.995_732_273_553_991,
            9.903_487_552_536_127,
            0.42,
            0.057_762_265_046_662_11,
            24.0,
            -24.0,
        ]),
        2 => t.uniform(-1.5, 2.5),
        3 => {
            let m = t.log_uniform(1e-12, 1e12);
            if t.chance(0.5) {
                -m
            } else {
                m
            }
        }
        _ => t.uniform(0.0, 1.0),
    }
}

pub fn special_usize(t: &mut Tape) -> usize {
    match t.weighted(&[3, 2, 3]) {
        0 => *t.pick(&[1usize, 0, 2, 240, 48000]),
        1 => *t.pick(&[usize::MAX, usize::MAX - 1, usize::MAX / 2 + 1, 1 << 32]),
        _ => t.urange(0, 200_000),
    }
}

fn clamp_ref(x: f64, lo: f64, hi: f64) -> f64 {
    if x < lo {
        lo
    } else if x > hi {
        hi
    } else {
        x
    }
}

#[derive(Debug, Clone, PartialEq)]
pub struct Model {
    sf: usize,
    fp: usize,
    volume_db: f64,
    thr: Vec<f64>,
    gvw: Vec<f64>,
    speed: f64,
    align: bool,
    alpha: f64,
    beta: f64,
    ht: f64,
}

fn observe(c: &Condition, n: usize) -> Model {
    Model {
        sf: c.get_sampling_frequency(),
        fp: c.get_fperiod(),
        volume_db: c.get_volume(),
        thr: (0..n).map(|i| c.get_msd_threshold(i)).collect(),
        gvw: (0..n).map(|i| c.get_gv_weight(i)).collect(),
        speed: c.get_speed(),
        align: c.get_phoneme_alignment_flag(),
        alpha: c.get_alpha(),
        beta: c.get_beta(),
        ht: c.get_additional_half_tone(),
    }
}

fn compare(step: &str, got: &Model, want: &Model) -> Result<(), Failure> {
    ensure!(got.sf == want.sf, "sampling_frequency", "{}: sampling frequency {} != {}", step, got.sf, want.sf);
    ensure!(got.fp == want.fp, "fperiod", "{}: fperiod {} != {}", step, got.fp, want.fp);
    let vol_ok = (got.volume_db - want.volume_db).abs() <= 1e-9 * 1f64.max(want.volume_db.abs());
    ensure!(vol_ok, "volume", "{}: volume {} != {}", step, got.volume_db, want.volume_db);
    ensure!(got.thr == want.thr, "msd_threshold", "{}: thresholds {:?} != {:?}", step, got.thr, want.thr);
    ensure!(got.gvw == want.gvw, "gv_weight", "{}: gv weights {:?} != {:?}", step, got.gvw, want.gvw);
    ensure!(got.speed == want.speed, "speed", "{}: speed {:e} != {:e}", step, got.speed, want.speed);
    ensure!(got.align == want.align, "alignment", "{}: alignment flag {} != {}", step, got.align, want.align);
    ensure!(got.alpha == want.alpha, "alpha", "{}: alpha {:e} != {:e}", step, got.alpha, want.alpha);
    ensure!(got.beta == want.beta, "beta", "{}: beta {:e} != {:e}", step, got.beta, want.beta);
    ensure!(got.ht == want.ht, "half_tone", "{}: half tone {:e} != {:e}", step, got.ht, want.ht);
    Ok(())
}

/// A 3-stream LSP voice (GAMMA=3, LN_GAIN=1): its hidden fields (stage, log-gain flag) are not at
/// their defaults, so a setter that disturbs them shows up.
fn lsp_fixture() -> Result<&'static jbonsai::Engine, String> {
    static E: std::sync::OnceLock<Result<jbonsai::Engine, String>> = std::sync::OnceLock::new();
    E.get_or_init(|| {
        let words = vec![0u32; 64];
        let mut t = Tape::new(&words);
        let mut spec = crate::voice::gen_voice(&mut t, crate::voice::GenOpts { lsp: Some(true), allow_two_streams: false, ..Default::default() });
        spec.stage = 3;
        spec.use_log_gain = true;
        spec.streams[0].options = vec!["ALPHA=0.42".into(), "GAMMA=3".into(), "LN_GAIN=1".into()];
        let tmp = crate::voice::TempVoice(crate::voice::write_temp(&spec.to_bytes(), "c20"));
        jbonsai::Engine::load(&[&tmp.0]).map_err(|e| e.to_string())
    })
    .as_ref()
    .map_err(|e| e.clone())
}

/// The bundled voice three times in one voice set: the defaults of a freshly loaded engine do not
/// depend on how many voices it holds.
fn set_fixture() -> Result<&'static jbonsai::Engine, String> {
    static E: std::sync::OnceLock<Result<jbonsai::Engine, String>> = std::sync::OnceLock::new();
    E.get_or_init(|| {
        let v = crate::engine_case::bundled_voice_arc().map_err(|f| f.message)?;
        crate::engine_case::engine_from_voices(vec![v.clone(), v.clone(), v]).map_err(|f| f.message)
    })
    .as_ref()
    .map_err(|e| e.clone())
}

/// The bundled voice with a FOURTH stream declared in its header (`AUX`, sharing every byte range
/// with `LPF`; the data section is untouched): the format puts no bound on NUM_STREAMS, the engine
/// synthesizes from the first three, and the per-stream settings cover index 3 as well.
fn four_stream_fixture() -> Result<&'static jbonsai::Engine, String> {
    static E: std::sync::OnceLock<Result<jbonsai::Engine, String>> = std::sync::OnceLock::new();
    E.get_or_init(|| {
        let bytes = crate::bundled::bundled_bytes();
        let marker = b"[DATA]\n";
        let at = bytes.windows(marker.len()).position(|w| w == marker).ok_or("no [DATA] marker")?;
        let header = std::str::from_utf8(&bytes[..at]).map_err(|e| e.to_string())?;
        let mut out = String::new();
        for line in header.lines() {
            if line.starts_with("NUM_STREAMS:") {
                out.push_str("NUM_STREAMS:4\n");
            } else if line.starts_with("STREAM_TYPE:") {
                out.push_str(line);
                out.push_str(",AUX\n");
            } else {
                out.push_str(line);
                out.push('\n');
                if line.contains("[LPF]") {
                    out.push_str(&line.replace("[LPF]", "[AUX]"));
                    out.push('\n');
                }
            }
        }
        let mut voice = out.into_bytes();
        voice.extend_from_slice(&bytes[at..]);
        let tmp = crate::voice::TempVoice(crate::voice::write_temp(&voice, "c20-4streams"));
        let e = jbonsai::Engine::load(&[&tmp.0]).map_err(|e| e.to_string())?;
        if e.voices.global_metadata().num_streams != 4 {
            return Err("the four-stream fixture did not load with four streams".into());
        }
        Ok(e)
    })
    .as_ref()
    .map_err(|e| e.clone())
}

pub struct SetterHistory;

impl Prop for SetterHistory {
    type Case = Case;
    fn name(&self) -> String {
        "setter-history".into()
    }
    fn rule(&self) -> String {
        "history of 0..24 operations: setter calls and clone / continue-on-clone / drop-copies operations (random order, stream index in range, arguments from {special values incl. 0,-0,subnormals,bounds +-ulp,+-1e300,MAX | uniform | log-uniform}) on a freshly loaded Condition (bundled voice, an LSP fixture, the bundled voice three times in one set, the bundled voice with a fourth stream declared in its header); after every call all getters are compared with a reference model of the documented clamps; the empty history checks the defaults. Non-trivial: >= 1 call whose argument lies outside the documented range (clamp exercised) and >= 3 calls".into()
    }
    fn tape_len(&self, _: Tier) -> usize {
        96
    }
    fn cases(&self, tier: Tier) -> u32 {
        tier.pick(400_000, 8_000_000)
    }
    fn decode(&self, t: &mut Tape, _: Tier) -> Case {
        let n = t.below(25);
        // stream indices 0..3; the check folds them into the range of the fixture's stream count
        let nstream = 4;
        let ops: Vec<Op> = (0..n)
            .map(|_| match t.below(12) {
                10 => {
                    let (slot, stream) = (t.below(3), t.below(nstream));
                    *t.pick(&[Op::CloneKeep, Op::CloneSwap, Op::InterpolationWeights(slot, stream), Op::InterpolationWeights(2, stream)])
                }
                11 => {
                    let k = if t.chance(0.5) { 0 } else { t.below(9) };
                    *t.pick(&[Op::CloneSwap, Op::DropCopies, Op::CloneKeep, Op::Reload, Op::CloneFrom, Op::WriteBack(k), Op::WriteBack(k)])
                }
                0 => Op::Alpha(special_f64(t)),
                1 => Op::Beta(special_f64(t)),
                2 => Op::MsdThreshold(t.below(nstream), special_f64(t)),
                3 => Op::GvWeight(t.below(nstream), special_f64(t)),
                4 => Op::Speed(special_f64(t)),
                5 => Op::HalfTone(special_f64(t)),
                6 => Op::SamplingFrequency(special_usize(t)),
                7 => Op::Fperiod(special_usize(t)),
                8 => Op::Volume(t.uniform(-60.0, 60.0)),
                _ => Op::Alignment(t.chance(0.5)),
            })
            .collect();
        Case {
            voice: match t.weighted(&[8, 7, 3, 3]) {
                0 => "bundled".into(),
                1 => "lsp-fixture".into(),
                2 => "bundled-x3".into(),
                _ => "bundled-4-streams".into(),
            },
            ops,
        }
    }
    fn check(&self, c: &Case) -> Result<Report, Failure> {
        let lsp = c.voice == "lsp-fixture";
        let engine: &jbonsai::Engine = if lsp {
            match lsp_fixture() {
                Ok(e) => e,
                Err(e) => fail!("fixture-load", "{}", e),
            }
        } else if c.voice == "bundled-x3" {
            match set_fixture() {
                Ok(e) => e,
                Err(e) => fail!("fixture-load", "{}", e),
            }
        } else if c.voice == "bundled-4-streams" {
            match four_stream_fixture() {
                Ok(e) => e,
                Err(e) => fail!("fixture-load", "{}", e),
            }
        } else {
            match bundled_engine() {
                Ok(e) => e,
                Err(e) => fail!("bundled-load", "{}", e),
            }
        };
        let n = engine.voices.global_metadata().num_streams;
        let mut cond = engine.condition.clone();
        let mut model = Model {
            sf: if lsp { 16000 } else { 48000 },
            fp: if lsp { 80 } else { 240 },
            volume_db: 0.0,
            thr: vec![0.5; n],
            gvw: vec![1.0; n],
            speed: 1.0,
            align: false,
            alpha: if lsp { 0.42 } else { 0.55 },
            beta: 0.0,
            ht: 0.0,
        };
        let defaults = model.clone();
        compare("fresh engine", &observe(&cond, n), &model)?;
        // a second, independently built Condition must agree (load_model is the only source of defaults)
        let mut fresh = Condition::default();
        if fresh.load_model(&engine.voices).is_err() {
            fail!("load_model", "Condition::load_model failed on a valid voice");
        }
        compare("Condition::default + load_model", &observe(&fresh, n), &model)?;

        let mut clamped = 0;
        let mut kept: Vec<(Condition, Model, usize)> = Vec::new();
        for (i, op) in c.ops.iter().enumerate() {
            match *op {
                Op::SamplingFrequency(v) => {
                    cond.set_sampling_frequency(v);
                    model.sf = v.max(1);
                    clamped += (v < 1) as usize;
                }
                Op::Fperiod(v) => {
                    cond.set_fperiod(v);
                    model.fp = v.max(1);
                    clamped += (v < 1) as usize;
                }
                Op::Volume(v) => {
                    cond.set_volume(v);
                    model.volume_db = v;
                }
                Op::MsdThreshold(s, v) => {
                    let s = s.min(n - 1);
                    cond.set_msd_threshold(s, v);
                    model.thr[s] = clamp_ref(v, 0.0, 1.0);
                    clamped += !(0.0..=1.0).contains(&v) as usize;
                }
                Op::GvWeight(s, v) => {
                    let s = s.min(n - 1);
                    cond.set_gv_weight(s, v);
                    model.gvw[s] = if v < 0.0 { 0.0 } else { v };
                    clamped += (v < 0.0) as usize;
                }
                Op::Speed(v) => {
                    cond.set_speed(v);
                    model.speed = if v < 1.0e-6 { 1.0e-6 } else { v };
                    clamped += (v < 1.0e-6) as usize;
                }
                Op::Alignment(b) => {
                    cond.set_phoneme_alignment_flag(b);
                    model.align = b;
                }
                Op::Alpha(v) => {
                    cond.set_alpha(v);
                    model.alpha = clamp_ref(v, 0.0, 1.0);
                    clamped += !(0.0..=1.0).contains(&v) as usize;
                }
                Op::Beta(v) => {
                    cond.set_beta(v);
                    model.beta = clamp_ref(v, 0.0, 1.0);
                    clamped += !(0.0..=1.0).contains(&v) as usize;
                }
                Op::HalfTone(v) => {
                    cond.set_additional_half_tone(v);
                    model.ht = v;
                }
                Op::CloneKeep => {
                    kept.push((cond.clone(), model.clone(), i));
                }
                Op::CloneSwap => {
                    let c2 = cond.clone();
                    kept.push((std::mem::replace(&mut cond, c2), model.clone(), i));
                }
                Op::DropCopies => kept.clear(),
                Op::WriteBack(k) => match k {
                    0 => {
                        let g = cond.get_volume();
                        cond.set_volume(g);
                        model.volume_db = g;
                    }
                    1 => cond.set_speed(cond.get_speed()),
                    2 => cond.set_alpha(cond.get_alpha()),
                    3 => cond.set_beta(cond.get_beta()),
                    4 => cond.set_additional_half_tone(cond.get_additional_half_tone()),
                    5 => {
                        for s in 0..n {
                            cond.set_msd_threshold(s, cond.get_msd_threshold(s));
                        }
                    }
                    6 => {
                        for s in 0..n {
                            cond.set_gv_weight(s, cond.get_gv_weight(s));
                        }
                    }
                    7 => cond.set_sampling_frequency(cond.get_sampling_frequency()),
                    _ => cond.set_fperiod(cond.get_fperiod()),
                },
                Op::CloneFrom => {
                    // destination: the oldest kept copy if there is one (same shape, other values),
                    // else a Condition that has never seen a voice
                    let mut dest = match kept.first() {
                        Some((k, _, _)) if i % 2 == 0 => k.clone(),
                        _ => Condition::default(),
                    };
                    dest.clone_from(&cond);
                    kept.push((std::mem::replace(&mut cond, dest), model.clone(), i));
                }
                Op::InterpolationWeights(slot, stream) => {
                    let stream = stream.min(n - 1);
                    let nv = engine.voices.len();
                    let w = vec![1.0 / nv as f64; nv];
                    let iw = cond.get_interporation_weight_mut();
                    let r = match slot {
                        0 => iw.set_duration(&w),
                        1 => iw.set_parameter(stream, &w),
                        _ => iw.set_gv(stream, &w),
                    };
                    ensure!(r.is_ok(), "interpolation-weights", "equal interpolation weights {:?} rejected", w);
                }
                Op::Reload => {
                    if cond.load_model(&engine.voices).is_err() {
                        fail!("load_model", "Condition::load_model failed on the engine's own voices");
                    }
                    model.sf = defaults.sf;
                    model.fp = defaults.fp;
                    model.thr = defaults.thr.clone();
                    model.gvw = defaults.gvw.clone();
                    model.alpha = defaults.alpha;
                }
            }
            // copies made earlier are independent objects: later setter calls must not reach them
            for (copy, m, at) in &kept {
                compare(&format!("copy made at op #{} checked after op #{} {:?}", at, i, op), &observe(copy, n), m)?;
            }
            compare(&format!("after op #{} {:?}", i, op), &observe(&cond, n), &model)?;
            // hidden fields (no getter) must not depend on the setter history either: a condition
            // brought to the same getter values directly must render identically under Debug
            let mut direct = engine.condition.clone();
            direct.set_sampling_frequency(model.sf);
            direct.set_fperiod(model.fp);
            direct.set_volume(model.volume_db);
            for s in 0..n {
                direct.set_msd_threshold(s, model.thr[s]);
                direct.set_gv_weight(s, model.gvw[s]);
            }
            direct.set_speed(model.speed);
            direct.set_phoneme_alignment_flag(model.align);
            direct.set_alpha(model.alpha);
            direct.set_beta(model.beta);
            direct.set_additional_half_tone(model.ht);
            if observe(&direct, n) == observe(&cond, n) && observe(&cond, n).volume_db.to_bits() == observe(&direct, n).volume_db.to_bits() {
                let (a, b) = (format!("{:?}", cond), format!("{:?}", direct));
                ensure!(a == b, "hidden-state", "after op #{} {:?}: a condition with the same getter values set directly differs in its Debug rendering: {} vs {}", i, op, a, b);
            }
        }
        // handing the condition to an engine keeps every stored value
        {
            let e2 = jbonsai::Engine::new(engine.voices.clone(), cond.clone());
            compare("Engine::new(voices, condition)", &observe(&e2.condition, n), &model)?;
        }
        // the engine the condition was cloned from is untouched
        let mut r = Report::new();
        r.nontrivial = clamped >= 1 && c.ops.len() >= 3;
        r.class(format!("voice:{}", c.voice));
        r.class_if(c.ops.is_empty(), "defaults-only");
        r.class_if(clamped > 0, "clamp-exercised");
        r.class(format!("ops:{}", match c.ops.len() { 0 => "0", 1..=4 => "1-4", 5..=12 => "5-12", _ => "13-24" }));
        Ok(r)
    }
}

/// The setters' contract does not depend on a voice having been loaded: the same histories on a
/// plain `Condition::default()` (whose rate and frame period are still 0 and which has no
/// per-stream tables yet, so the per-stream setters are left out).
#[derive(Debug, Clone, Serialize)]
pub struct UnloadedCase {
    pub ops: Vec<Op>,
}

pub struct UnloadedCondition;

impl Prop for UnloadedCondition {
    type Case = UnloadedCase;
    fn name(&self) -> String {
        "unloaded-condition".into()
    }
    fn rule(&self) -> String {
        "history of 0..12 calls of the setters that need no per-stream table (sampling frequency, frame period, volume, speed, alignment flag, alpha, beta, half tone; special / uniform / log-uniform arguments) on Condition::default() before any load_model; after every call all getters vs the reference model of the documented clamps. Non-trivial: >= 1 call".into()
    }
    fn tape_len(&self, _: Tier) -> usize {
        64
    }
    fn cases(&self, tier: Tier) -> u32 {
        tier.pick(60_000, 600_000)
    }
    fn decode(&self, t: &mut Tape, _: Tier) -> UnloadedCase {
        let n = t.below(13);
        let ops = (0..n)
            .map(|_| match t.below(8) {
                0 => Op::Alpha(special_f64(t)),
                1 => Op::Beta(special_f64(t)),
                2 => Op::Speed(special_f64(t)),
                3 => Op::HalfTone(special_f64(t)),
                4 => Op::SamplingFrequency(special_usize(t)),
                5 => Op::Fperiod(special_usize(t)),
                6 => Op::Volume(t.uniform(-60.0, 60.0)),
                _ => Op::Alignment(t.chance(0.5)),
            })
            .collect();
        UnloadedCase { ops }
    }
    fn check(&self, c: &UnloadedCase) -> Result<Report, Failure> {
        let mut cond = Condition::default();
        let mut model = Model { sf: 0, fp: 0, volume_db: 0.0, thr: vec![], gvw: vec![], speed: 1.0, align: false, alpha: 0.0, beta: 0.0, ht: 0.0 };
        compare("Condition::default()", &observe(&cond, 0), &model)?;
        for (i, op) in c.ops.iter().enumerate() {
            match *op {
                Op::SamplingFrequency(v) => {
                    cond.set_sampling_frequency(v);
                    model.sf = v.max(1);
                }
                Op::Fperiod(v) => {
                    cond.set_fperiod(v);
                    model.fp = v.max(1);
                }
                Op::Volume(v) => {
                    cond.set_volume(v);
                    model.volume_db = v;
                }
                Op::Speed(v) => {
                    cond.set_speed(v);
                    model.speed = if v < 1.0e-6 { 1.0e-6 } else { v };
                }
                Op::Alignment(b) => {
                    cond.set_phoneme_alignment_flag(b);
                    model.align = b;
                }
                Op::Alpha(v) => {
                    cond.set_alpha(v);
                    model.alpha = clamp_ref(v, 0.0, 1.0);
                }
                Op::Beta(v) => {
                    cond.set_beta(v);
                    model.beta = clamp_ref(v, 0.0, 1.0);
                }
                Op::HalfTone(v) => {
                    cond.set_additional_half_tone(v);
                    model.ht = v;
                }
                _ => {}
            }
            compare(&format!("unloaded condition after op #{} {:?}", i, op), &observe(&cond, 0), &model)?;
        }
        let mut r = Report::new();
        r.nontrivial = !c.ops.is_empty();
        r.class(format!("ops:{}", match c.ops.len() { 0 => "0", 1..=4 => "1-4", _ => "5-12" }));
        Ok(r)
    }
}
