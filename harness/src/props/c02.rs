//! C02 Incremental generation equals one-shot synthesis.

use serde::Serialize;
use serde_json::{json, Value};

use jbonsai::speech::SpeechGenerator;
use jbonsai::vocoder::Vocoder;

use crate::engine_case::{build_engine, gen_engine_case, EngineCase};
use crate::runner::{DynProp, Failure, Prop, Report, Session, Tier};
use crate::tape::Tape;
use crate::util::{catch, hash_json};
use crate::voice::GenOpts;
use crate::{ensure, fail};

use super::PropertyDef;

pub fn def() -> PropertyDef {
    PropertyDef {
        id: "C02",
        level: "exploration",
        props: |_| vec![Box::new(RandomHistory) as Box<dyn DynProp>],
        extra,
        replay_custom,
        assumptions: &[
            "reference model: the one-shot waveform W of a fresh generator and a frame cursor k; Step must return fperiod, write W[k*fp..(k+1)*fp] (bitwise) and leave the rest of a larger buffer untouched while k < F, else return 0 and leave a sentinel-filled buffer untouched; synthesized_frames() == k; Finish returns exactly W[k*fp..]",
            "the exhaustively enumerated sub-space uses generators built directly with the public SpeechGenerator::new from synthetic trajectories of 0..4 frames",
        ],
    }
}

#[derive(Debug, Clone, Serialize, PartialEq)]
pub enum Op {
    /// step with a buffer of fperiod + extra samples
    Step(usize),
    /// n consecutive steps with exact-size buffers
    StepMany(usize),
    Frames,
    Finish,
}

const SENTINEL: f64 = -7.25e77;

fn same(a: f64, b: f64) -> bool {
    a.to_bits() == b.to_bits() || (a.is_nan() && b.is_nan())
}

/// Interpret a history against the reference model. `make` builds a fresh generator.
pub fn run_history(make: &dyn Fn() -> Result<SpeechGenerator, Failure>, ops: &[Op], rep: &mut Report) -> Result<(), Failure> {
    let w = match catch(|| make().map(|g| g.generate_all())) {
        Ok(Ok(w)) => w,
        Ok(Err(f)) => return Err(f),
        Err(p) => fail!(p.signature(), "one-shot generate_all panicked: {}", p.msg),
    };
    let mut g = make()?;
    let fp = g.fperiod();
    ensure!(fp > 0 && w.len() % fp == 0, "oneshot-length", "one-shot waveform of {} samples is not a multiple of fperiod {}", w.len(), fp);
    let f = w.len() / fp;
    let mut k = 0usize;
    ensure!(g.synthesized_frames() == 0, "frames-query", "fresh generator reports {} frames", g.synthesized_frames());
    let mut stepped_before_finish = false;
    let mut stepped_past_end = false;
    let mut finished = false;
    let mut g_opt = Some(g);
    for (i, op) in ops.iter().enumerate() {
        g = match g_opt.take() {
            Some(g) => g,
            None => break,
        };
        match op {
            Op::Step(_) | Op::StepMany(_) => {
                let (n, extra) = match op {
                    Op::Step(e) => (1, *e),
                    Op::StepMany(n) => (*n, 0),
                    _ => unreachable!(),
                };
                for _ in 0..n {
                    // the caller's buffer is any f64 slice: here a window starting 0..3 elements
                    // into a larger vector (a ring buffer, an interleaved frame), so its address is
                    // 8-byte aligned only
                    let lead = (k + i) % 4;
                    let mut backing = vec![SENTINEL; lead + fp + extra.min(2 * fp)];
                    let (head, buf) = backing.split_at_mut(lead);
                    let r = match catch(|| g.generate_step(&mut *buf)) {
                        Ok(r) => r,
                        Err(p) => fail!(p.signature(), "op #{} {:?}: generate_step panicked with a buffer of {} >= fperiod {}: {}", i, op, buf.len(), fp, p.msg),
                    };
                    if k < f {
                        ensure!(r == fp, "step-return", "op #{} {:?}: generate_step returned {} at frame {} of {} (expected fperiod {})", i, op, r, k, f, fp);
                        if let Some(j) = (0..fp).find(|&j| !same(buf[j], w[k * fp + j])) {
                            fail!("step-chunk", "op #{} {:?}: frame {} sample {}: incremental {:e} != one-shot {:e}", i, op, k, j, buf[j], w[k * fp + j]);
                        }
                        // the call reports fp samples: what lies beyond them in the caller's buffer
                        // (e.g. the other half of a double buffer) is not its to touch
                        if let Some(j) = (fp..buf.len()).find(|&j| !same(buf[j], SENTINEL)) {
                            fail!("step-writes-beyond-frame", "op #{} {:?}: generate_step returned {} but modified the caller's buffer at index {} (buffer of {})", i, op, r, j, buf.len());
                        }
                        ensure!(head.iter().all(|x| same(*x, SENTINEL)), "step-writes-beyond-frame", "op #{} {:?}: generate_step modified the caller's vector BEFORE the slice it was given (slice starts at element {})", i, op, lead);
                        k += 1;
                        stepped_before_finish = true;
                    } else {
                        ensure!(r == 0, "step-return", "op #{} {:?}: exhausted generator returned {} instead of 0", i, op, r);
                        ensure!(buf.iter().all(|x| same(*x, SENTINEL)), "step-exhausted-write", "op #{} {:?}: exhausted generator wrote into the buffer", i, op);
                        stepped_past_end = true;
                    }
                    ensure!(g.synthesized_frames() == k, "frames-query", "op #{} {:?}: synthesized_frames() = {} but {} frames were produced", i, op, g.synthesized_frames(), k);
                }
                g_opt = Some(g);
            }
            Op::Frames => {
                ensure!(g.synthesized_frames() == k, "frames-query", "op #{}: synthesized_frames() = {} but {} frames were produced", i, g.synthesized_frames(), k);
                ensure!(g.fperiod() == fp, "frames-query", "fperiod changed");
                g_opt = Some(g);
            }
            Op::Finish => {
                let rest = match catch(move || g.generate_all()) {
                    Ok(r) => r,
                    Err(p) => fail!(p.signature(), "op #{}: generate_all on a generator with {} of {} frames produced panicked: {}", i, k, f, p.msg),
                };
                ensure!(rest.len() == (f - k) * fp, "finish-length", "op #{}: generate_all after {} of {} frames returned {} samples, expected {}", i, k, f, rest.len(), (f - k) * fp);
                if let Some(j) = (0..rest.len()).find(|&j| !same(rest[j], w[k * fp + j])) {
                    fail!("finish-suffix", "op #{}: generate_all after {} frames: sample {} is {:e}, one-shot has {:e}", i, k, j, rest[j], w[k * fp + j]);
                }
                finished = true;
            }
        }
    }
    rep.nontrivial = (stepped_before_finish && finished) || stepped_past_end;
    rep.class_if(stepped_before_finish && finished, "finish-after-steps");
    rep.class_if(stepped_past_end, "step-past-end");
    rep.class_if(stepped_before_finish && f > 2048, "streamed-utterance-over-2048-frames");
    rep.class(format!("frames:{}", match f { 0 => "0", 1..=4 => "1-4", 5..=40 => "5-40", _ => ">40" }));
    Ok(())
}

#[derive(Debug, Clone, Serialize)]
pub struct Case {
    pub base: EngineCase,
    pub ops: Vec<Op>,
    /// phoneme alignment on, with generated time stamps on the label lines
    pub alignment: bool,
    pub times: Option<Vec<Option<(f64, f64)>>>,
}

pub struct RandomHistory;

impl Prop for RandomHistory {
    type Case = Case;
    fn name(&self) -> String {
        "random-history".into()
    }
    fn rule(&self) -> String {
        "engine/utterance/condition as in C01 (0..12 labels; generated voices 92 %; phoneme alignment on in 25 % of the cases, mostly with time-stamped lines), Engine::synthesize == a fresh generator asked for everything, history of 0..40 ops over {Step(buffer fp..3fp), StepMany(n), Frames, Finish} interpreted against the reference model (one-shot waveform + cursor); 2 %: 30..45 labels of the bundled voice at speed 0.25..0.32 with frame period 1..4, more than 2040 consecutive steps with the frame counter read after each, then Finish. Non-trivial: a Step before a Finish, or a Step past the end".into()
    }
    fn tape_len(&self, _: Tier) -> usize {
        12000
    }
    fn cases(&self, tier: Tier) -> u32 {
        tier.pick(4_000, 80_000)
    }
    fn decode(&self, t: &mut Tape, _: Tier) -> Case {
        // 2 %: a long text streamed frame by frame - 30..45 labels of the bundled voice spoken slowly
        // with a tiny frame period (2 400..4 500 frames, cheap to render), thousands of consecutive
        // steps with the frame counter queried after each, then the rest in one call
        if t.chance(0.02) {
            let n = t.urange(30, 45);
            let (labels, src) = crate::corpus::gen_label_lines(t, n, false);
            let mut cond = crate::engine_case::Cond::default_for(3);
            cond.speed = t.uniform(0.25, 0.32);
            cond.fperiod = Some(t.urange(1, 4));
            let base = crate::engine_case::EngineCase { voice: crate::engine_case::VoiceChoice::Bundled, source: src.name().into(), labels, cond };
            let ops = vec![Op::StepMany(t.urange(2040, 2060)), Op::Frames, Op::Step(t.below(4)), Op::StepMany(t.urange(1, 300)), Op::Frames, Op::Finish];
            return Case { base, ops, alignment: false, times: None };
        }
        let base = gen_engine_case(t, 12, 8, false, GenOpts::default());
        let n = t.below(41);
        let mut ops = Vec::with_capacity(n);
        for _ in 0..n {
            ops.push(match t.weighted(&[5, 3, 2, 1]) {
                0 => Op::Step(match t.below(3) {
                    0 => 0,
                    1 => t.below(961),
                    _ => 1,
                }),
                1 => Op::StepMany(match t.below(3) {
                    0 => t.urange(1, 5),
                    1 => t.urange(1, 40),
                    _ => t.urange(1, 400),
                }),
                2 => Op::Frames,
                _ => Op::Finish,
            });
        }
        if t.chance(0.6) {
            ops.push(Op::Finish);
        }
        let alignment = t.chance(0.25);
        let times = if alignment && t.chance(0.8) && !base.labels.is_empty() {
            let (rate0, fp0, nstate) = match base.voice.base_spec() {
                Some(v) => (v.sampling_frequency, v.frame_period, v.num_states),
                None => (48000, 240, 5),
            };
            let rate = base.cond.rate.unwrap_or(rate0);
            let fp = base.cond.fperiod.unwrap_or(fp0);
            let frame_100ns = fp as f64 * 1e7 / rate as f64;
            let typical = nstate as f64 * t.log_uniform(0.5, 4.0);
            Some(super::c09::gen_text_times(t, base.labels.len(), frame_100ns, typical, 5.9e9))
        } else {
            None
        };
        Case { base, ops, alignment, times }
    }
    fn check(&self, c: &Case) -> Result<Report, Failure> {
        let (mut engine, _info) = build_engine(&c.base.voice)?;
        c.base.cond.apply(&mut engine);
        engine.condition.set_phoneme_alignment_flag(c.alignment);
        let lines = match &c.times {
            Some(t) => super::c09::timed_lines(&c.base.labels, t),
            None => c.base.labels.clone(),
        };
        // cheap pre-check of the size through the generator (no vocoding)
        let frames = match catch(|| engine.generator(lines.as_slice()).map(|g| crate::engine_util::trajectories(&g).lf0.len())) {
            Ok(Ok(n)) => n,
            Ok(Err(e)) => fail!("generator", "generator failed: {}", e),
            Err(p) => fail!(p.signature(), "generator panicked: {}", p.msg),
        };
        if frames > 6000 || frames * engine.condition.get_fperiod() > 1_500_000 {
            return Ok(Report::rejected("too-long"));
        }
        let make = || -> Result<SpeechGenerator, Failure> {
            engine.generator(lines.as_slice()).map_err(|e| Failure::new("generator", format!("generator failed: {}", e)))
        };
        let mut rep = Report::new();
        run_history(&make, &c.ops, &mut rep)?;
        // "one-shot synthesis" is Engine::synthesize: it must be what a fresh generator of the same
        // engine and labels produces when asked for everything
        let oneshot = match catch(|| engine.synthesize(lines.as_slice())) {
            Ok(Ok(w)) => w,
            Ok(Err(e)) => fail!("synthesize-error", "synthesize failed where the generator succeeds: {}", e),
            Err(p) => fail!(p.signature(), "synthesize panicked: {}", p.msg),
        };
        let all = make()?.generate_all();
        ensure!(oneshot.len() == all.len(), "oneshot-differs", "Engine::synthesize returns {} samples, a fresh generator asked for everything {} (alignment {})", oneshot.len(), all.len(), c.alignment);
        if let Some(i) = (0..all.len()).find(|&i| oneshot[i].to_bits() != all[i].to_bits() && !(oneshot[i].is_nan() && all[i].is_nan())) {
            fail!("oneshot-differs", "Engine::synthesize and a fresh generator asked for everything differ at sample {}: {:e} vs {:e}", i, oneshot[i], all[i]);
        }
        // ... and what a freshly built engine with the same settings returns in one shot (the engine
        // above has served several requests for these labels by now)
        {
            let (mut fresh, _) = build_engine(&c.base.voice)?;
            c.base.cond.apply(&mut fresh);
            fresh.condition.set_phoneme_alignment_flag(c.alignment);
            let first = match catch(|| fresh.synthesize(lines.as_slice())) {
                Ok(Ok(w)) => w,
                Ok(Err(e)) => fail!("synthesize-error", "synthesize failed on a fresh engine: {}", e),
                Err(p) => fail!(p.signature(), "synthesize panicked: {}", p.msg),
            };
            ensure!(first.len() == all.len(), "oneshot-differs", "a fresh engine returns {} samples in one shot, a generator of the used engine {}", first.len(), all.len());
            if let Some(i) = (0..all.len()).find(|&i| first[i].to_bits() != all[i].to_bits() && !(first[i].is_nan() && all[i].is_nan())) {
                fail!("oneshot-differs", "one-shot synthesis on a fresh engine and a generator of an engine that has served these labels before differ at sample {}: {:e} vs {:e}", i, first[i], all[i]);
            }
        }
        rep.class(c.base.voice.class());
        rep.class_if(c.alignment, "alignment:on");
        rep.class_if(c.times.is_some(), "alignment:with-times");
        Ok(rep)
    }
}

// ---------------------------------------------------------------------------------------------
// Exhaustive enumeration on short generators

#[derive(Debug, Clone, Serialize)]
struct ShortGen {
    frames: usize,
    fperiod: usize,
    lsp: bool,
    lpf: usize,
}

fn make_short(s: &ShortGen) -> SpeechGenerator {
    let nmcp = 4;
    let (stage, spectrum_frame): (usize, Vec<f64>) = if s.lsp { (2, vec![0.8, 0.6, 1.4, 2.3]) } else { (0, vec![0.3, 0.4, -0.2, 0.1]) };
    let vocoder = Vocoder::new(nmcp, s.lpf, stage, false, 16000, 0.42, 0.0, 1.0, s.fperiod);
    let spectrum: Vec<Vec<f64>> = (0..s.frames)
        .map(|f| spectrum_frame.iter().enumerate().map(|(i, v)| v + 0.01 * (f as f64) * if s.lsp && i == 0 { 0.0 } else { 1.0 }).collect())
        .collect();
    // voiced, unvoiced, voiced ... with a moving F0
    let lf0: Vec<Vec<f64>> = (0..s.frames).map(|f| vec![if f % 3 == 1 { -1e10 } else { 5.5 + 0.2 * f as f64 }]).collect();
    let lpf: Vec<Vec<f64>> = (0..s.frames).map(|_| (0..s.lpf).map(|i| 0.4 / (1.0 + i as f64)).collect()).collect();
    SpeechGenerator::new(s.fperiod, vocoder, spectrum, lf0, lpf)
}

fn enumerate_histories(max_len: usize, fp: usize) -> Vec<Vec<Op>> {
    let alphabet = [Op::Step(0), Op::Step(fp + 1), Op::Step(2 * fp), Op::Frames];
    let mut out = vec![vec![]];
    let mut frontier: Vec<Vec<Op>> = vec![vec![]];
    for _ in 0..max_len {
        let mut next = Vec::new();
        for h in &frontier {
            for a in &alphabet {
                let mut n = h.clone();
                n.push(a.clone());
                next.push(n);
            }
        }
        out.extend(next.iter().cloned());
        frontier = next;
    }
    // Finish is terminal: append it to every prefix shorter than max_len (and count both)
    let mut with_finish = Vec::new();
    for h in &out {
        if h.len() < max_len {
            let mut n = h.clone();
            n.push(Op::Finish);
            with_finish.push(n);
        }
    }
    out.extend(with_finish);
    out
}

const ENUM_RULE: &str = "ALL histories over {Step(fp), Step(2fp+1), Step(3fp), Frames, Finish(terminal)} up to length 4 (quick) / 6 (thorough) on generators of 0..4 frames x {MLSA, LSP} x {no LPF, LPF order 5} x fperiod {3, 8}; non-trivial: a Step before a Finish, or a Step past the end";

fn extra(s: &mut Session) {
    let max_len = s.tier.pick(4, 6);
    let mut total = 0u64;
    'outer: for frames in 0..=4usize {
        for lsp in [false, true] {
            for lpf in [0usize, 5] {
                for fperiod in [3usize, 8] {
                    let sg = ShortGen { frames, fperiod, lsp, lpf };
                    for h in enumerate_histories(max_len, fperiod) {
                        let mut rep = Report::new();
                        let sg2 = sg.clone();
                        let make = move || -> Result<SpeechGenerator, Failure> { Ok(make_short(&sg2)) };
                        let r = match catch(|| run_history(&make, &h, &mut rep)) {
                            Ok(r) => r,
                            Err(p) => Err(Failure::new(p.signature(), format!("panic: {}", p.msg))),
                        };
                        total += 1;
                        let desc = json!({ "generator": sg, "ops": h });
                        match r {
                            Ok(()) => s.record("exhaustive-short", ENUM_RULE, hash_json(&desc), &rep, || desc.clone()),
                            Err(f) => {
                                let body = json!({ "kind": "short-history", "generator": sg, "ops": ops_to_json(&h) });
                                if s.failure("exhaustive-short", &f, body) {
                                    break 'outer;
                                }
                            }
                        }
                    }
                }
            }
        }
    }
    s.set_exhaustive("exhaustive-short", true);
    s.extra.insert("enumerated_histories".into(), json!(total));
}

fn ops_to_json(h: &[Op]) -> Value {
    serde_json::to_value(h).unwrap_or(Value::Null)
}

fn ops_from_json(v: &Value) -> Vec<Op> {
    v.as_array()
        .map(|a| {
            a.iter()
                .filter_map(|o| {
                    if let Some(s) = o.as_str() {
                        return match s {
                            "Frames" => Some(Op::Frames),
                            "Finish" => Some(Op::Finish),
                            _ => None,
                        };
                    }
                    let m = o.as_object()?;
                    if let Some(n) = m.get("Step") {
                        return Some(Op::Step(n.as_u64()? as usize));
                    }
                    if let Some(n) = m.get("StepMany") {
                        return Some(Op::StepMany(n.as_u64()? as usize));
                    }
                    None
                })
                .collect()
        })
        .unwrap_or_default()
}

fn replay_custom(s: &mut Session, v: &Value) -> bool {
    if v.get("kind").and_then(|k| k.as_str()) != Some("short-history") {
        eprintln!("unknown replay kind");
        return false;
    }
    let g = &v["generator"];
    let sg = ShortGen {
        frames: g["frames"].as_u64().unwrap_or(0) as usize,
        fperiod: g["fperiod"].as_u64().unwrap_or(3) as usize,
        lsp: g["lsp"].as_bool().unwrap_or(false),
        lpf: g["lpf"].as_u64().unwrap_or(0) as usize,
    };
    let ops = ops_from_json(&v["ops"]);
    let mut rep = Report::new();
    let sg2 = sg.clone();
    let make = move || -> Result<SpeechGenerator, Failure> { Ok(make_short(&sg2)) };
    let r = match catch(|| run_history(&make, &ops, &mut rep)) {
        Ok(r) => r,
        Err(p) => Err(Failure::new(p.signature(), format!("panic: {}", p.msg))),
    };
    match r {
        Ok(()) => {
            let desc = json!({ "generator": sg, "ops": ops });
            s.record("exhaustive-short", ENUM_RULE, hash_json(&desc), &rep, || desc.clone());
            true
        }
        Err(f) => {
            let body = json!({ "kind": "short-history", "generator": sg, "ops": ops_to_json(&ops) });
            !s.failure("exhaustive-short", &f, body)
        }
    }
}
