//! C04 A loaded voice is exactly what the file says.

use std::collections::HashSet;
use std::sync::{Mutex, OnceLock};

use jlabel::Label;
use serde::Serialize;
use serde_json::json;

use jbonsai::model::voice::model::Model;
use jbonsai::model::{load_htsvoice_file, Voice};
use jbonsai::Engine;

use crate::bundled::{bundled_engine, bundled_path};
use crate::corpus::{gen_label_lines, parse_lines};
use crate::engine_util::render_with;
use crate::hts_reader::{any_glob, read_voice, FileModel, FileVoice};
use crate::runner::{DynProp, Failure, Prop, Report, Session, Tier};
use crate::tape::Tape;
use crate::util::catch;
use crate::voice::{bundled_file_voice, gen_voice, question_pool, write_temp, GenOpts, TempVoice, VoiceSpec};
use crate::{ensure, fail};

use super::{no_custom, PropertyDef};

pub fn def() -> PropertyDef {
    PropertyDef {
        id: "C04",
        level: "exploration",
        props: |_| vec![Box::new(BundledLookup) as Box<dyn DynProp>, Box::new(GeneratedVoice) as Box<dyn DynProp>],
        extra,
        replay_custom: no_custom,
        assumptions: &[
            "oracle = independent reader of the .htsvoice text/binary layout + textbook '*'/'?' glob over the serialised label (Display of jlabel::Label)",
            "labels are restricted to the corpus-derived domain of the property (slot values observed in the 1456-line corpus)",
            "for generated voices the written VoiceSpec is a second oracle that validates the independent reader",
        ],
    }
}

static REACHED: OnceLock<Mutex<HashSet<(String, usize, usize)>>> = OnceLock::new();
static QSEEN: OnceLock<Mutex<HashSet<(String, bool)>>> = OnceLock::new();

fn note_walk(model_name: &str, tree: usize, pdf: usize, path: &[(String, bool)]) {
    REACHED
        .get_or_init(Default::default)
        .lock()
        .unwrap()
        .insert((model_name.to_string(), tree, pdf));
    let mut q = QSEEN.get_or_init(Default::default).lock().unwrap();
    for (name, yes) in path {
        q.insert((name.clone(), *yes));
    }
}

fn extra(s: &mut Session) {
    let reached = REACHED.get_or_init(Default::default).lock().unwrap().len();
    let q = QSEEN.get_or_init(Default::default).lock().unwrap();
    let names: HashSet<&String> = q.iter().map(|(n, _)| n).collect();
    let both = names.iter().filter(|n| q.contains(&((**n).clone(), true)) && q.contains(&((**n).clone(), false))).count();
    let (pool, fallback) = question_pool();
    let fb_yes = fallback.iter().filter(|i| q.contains(&(pool[**i].0.clone(), true))).count();
    let fb_no = fallback.iter().filter(|i| q.contains(&(pool[**i].0.clone(), false))).count();
    s.extra.insert(
        "tree_coverage".into(),
        json!({
            "distinct_model_tree_leaf_reached": reached,
            "distinct_questions_evaluated": names.len(),
            "questions_seen_both_true_and_false": both,
            "regex_fallback_questions_seen_true": fb_yes,
            "regex_fallback_questions_seen_false": fb_no,
        }),
    );
}

/// Compare one model (duration / stream / GV) for one label against the file.
#[allow(clippy::too_many_arguments)]
pub fn check_model(
    what: &str,
    model: &Model,
    file: &FileModel,
    states: &[usize],
    label: &Label,
    text: &str,
    is_msd: bool,
    rep: &mut Report,
    questions_passed: &mut usize,
) -> Result<(), Failure> {
    for &state in states {
        let (ti, pdf_idx, walk) = match file.select(state, text) {
            Ok(x) => x,
            Err(e) => fail!("oracle-walk", "{} state {}: independent walk failed: {}", what, state, e),
        };
        *questions_passed += walk.path.len();
        rep.metric("longest_walk_questions", walk.path.len() as f64);
        rep.class_if(walk.path.len() >= 32, "walk>=32-questions");
        note_walk(what, ti, pdf_idx, &walk.path);
        let want = match file.pdf_at(ti, pdf_idx) {
            Ok(p) => p,
            Err(e) => fail!("oracle-walk", "{} state {}: {}", what, state, e),
        };
        let idx = model.get_index(state, label);
        ensure!(
            idx == (Some(ti + 2), Some(pdf_idx)),
            "tree-selection",
            "{} state {} label {}: get_index = {:?}, file's tree selects tree #{} pdf {} (path {:?})",
            what, state, text, idx, ti, pdf_idx, walk.path
        );
        let got = model.get_parameter(state, label);
        let len = (want.len() - is_msd as usize) / 2;
        ensure!(
            got.parameters.len() == len,
            "pdf-shape",
            "{} state {}: {} Gaussians, file has {}",
            what, state, got.parameters.len(), len
        );
        for i in 0..len {
            ensure!(
                got.parameters[i].0.to_bits() == (want[i] as f64).to_bits() && got.parameters[i].1.to_bits() == (want[i + len] as f64).to_bits(),
                "pdf-values",
                "{} state {} label {} pdf {} dim {}: loaded ({:e},{:e}) != file ({:e},{:e})",
                what, state, text, pdf_idx, i, got.parameters[i].0, got.parameters[i].1, want[i], want[i + len]
            );
        }
        if is_msd {
            ensure!(
                got.msd.map(|m| m.to_bits()) == Some((want[2 * len] as f64).to_bits()),
                "pdf-values",
                "{} state {} label {} pdf {}: voicing weight {:?} != file {:e}",
                what, state, text, pdf_idx, got.msd, want[2 * len]
            );
        } else {
            ensure!(got.msd.is_none(), "pdf-values", "{} state {}: unexpected voicing weight {:?}", what, state, got.msd);
        }
    }
    for (name, yes) in [("fallback-yes", true), ("fallback-no", false)] {
        let _ = (name, yes);
    }
    let _ = rep;
    Ok(())
}

fn window_coefs(w: &jbonsai::model::voice::window::Window) -> Vec<f64> {
    let mut v: Vec<(usize, f64)> = w.iter_rev(0).map(|(i, c)| (i.index(), c)).collect();
    v.sort_by_key(|x| x.0);
    v.into_iter().map(|x| x.1).collect()
}

/// Metadata, options, windows: loaded voice vs file text.
pub fn check_static(voice: &Voice, file: &FileVoice) -> Result<(), Failure> {
    let m = &voice.metadata;
    ensure!(m.sampling_frequency == file.sampling_frequency, "metadata", "sampling frequency {} != {}", m.sampling_frequency, file.sampling_frequency);
    ensure!(m.frame_period == file.frame_period, "metadata", "frame period {} != {}", m.frame_period, file.frame_period);
    ensure!(m.num_states == file.num_states, "metadata", "states {} != {}", m.num_states, file.num_states);
    ensure!(m.num_streams == file.num_streams, "metadata", "streams {} != {}", m.num_streams, file.num_streams);
    ensure!(m.stream_type == file.stream_type, "metadata", "stream types {:?} != {:?}", m.stream_type, file.stream_type);
    let g = |k: &str| file.global.get(k).cloned().unwrap_or_default();
    ensure!(m.hts_voice_version == g("HTS_VOICE_VERSION"), "metadata", "voice version {:?}", m.hts_voice_version);
    ensure!(m.fullcontext_format == g("FULLCONTEXT_FORMAT"), "metadata", "fullcontext format {:?}", m.fullcontext_format);
    ensure!(m.fullcontext_version == g("FULLCONTEXT_VERSION"), "metadata", "fullcontext version {:?}", m.fullcontext_version);
    ensure!(voice.stream_models.len() == file.streams.len(), "metadata", "stream model count {} != {}", voice.stream_models.len(), file.streams.len());
    for (sm, fs) in voice.stream_models.iter().zip(&file.streams) {
        let md = &sm.metadata;
        ensure!(md.vector_length == fs.vector_length, "stream-metadata", "{}: vector length {} != {}", fs.name, md.vector_length, fs.vector_length);
        ensure!(md.num_windows == fs.num_windows, "stream-metadata", "{}: window count {} != {}", fs.name, md.num_windows, fs.num_windows);
        ensure!(md.is_msd == fs.is_msd, "stream-metadata", "{}: MSD flag {} != {}", fs.name, md.is_msd, fs.is_msd);
        ensure!(md.use_gv == fs.use_gv, "stream-metadata", "{}: GV flag {} != {}", fs.name, md.use_gv, fs.use_gv);
        ensure!(md.option == fs.options, "stream-metadata", "{}: options {:?} != {:?}", fs.name, md.option, fs.options);
        ensure!(sm.gv_model.is_some() == fs.use_gv, "stream-metadata", "{}: GV model presence", fs.name);
        let wins: Vec<Vec<f64>> = sm.windows.iter().map(window_coefs).collect();
        ensure!(wins == fs.windows, "windows", "{}: window coefficients {:?} != file {:?}", fs.name, wins, fs.windows);
    }
    Ok(())
}

fn option_values(file: &FileVoice) -> (f64, usize, bool) {
    let mut alpha = 0.0;
    let mut stage = 0usize;
    let mut lg = false;
    if let Some(s) = file.streams.first() {
        for o in &s.options {
            if let Some((k, v)) = o.split_once('=') {
                match k {
                    "ALPHA" => alpha = v.parse().unwrap_or(alpha),
                    "GAMMA" => stage = v.parse().unwrap_or(stage),
                    "LN_GAIN" => lg = v == "1",
                    _ => {}
                }
            }
        }
    }
    (alpha, stage, lg)
}

/// Engine defaults equal the header; stage / log-gain observed behaviourally through the waveform.
pub fn check_engine_defaults(engine: &Engine, file: &FileVoice, lines: &[String]) -> Result<(), Failure> {
    let (alpha, stage, lg) = option_values(file);
    let c = &engine.condition;
    ensure!(c.get_sampling_frequency() == file.sampling_frequency, "engine-defaults", "sampling rate {} != header {}", c.get_sampling_frequency(), file.sampling_frequency);
    ensure!(c.get_fperiod() == file.frame_period, "engine-defaults", "frame period {} != header {}", c.get_fperiod(), file.frame_period);
    ensure!(c.get_alpha() == alpha, "engine-defaults", "alpha {} != header {}", c.get_alpha(), alpha);
    // stage and log-gain flag have no getter; the derived Debug output is the only direct public
    // observation. It is used when it has the expected shape and ignored otherwise.
    let dbg = format!("{:?}", c);
    let field = |name: &str| -> Option<String> {
        let key = format!("{}: ", name);
        let p = dbg.find(&key)? + key.len();
        let rest = &dbg[p..];
        let end = rest.find([',', ' ', '}'])?;
        Some(rest[..end].to_string())
    };
    if let (Some(st), Some(lgs)) = (field("stage"), field("use_log_gain")) {
        if let (Ok(st), Ok(lgs)) = (st.parse::<usize>(), lgs.parse::<bool>()) {
            ensure!(st == stage, "engine-defaults", "gamma stage {} != header GAMMA={}", st, stage);
            ensure!(lgs == lg, "engine-defaults", "log-gain flag {} != header LN_GAIN={} (options {:?})", lgs, lg as u8, file.streams.first().map(|s| &s.options));
        }
    }
    if !lines.is_empty() {
        let wave = match engine.synthesize(lines) {
            Ok(w) => w,
            Err(e) => fail!("engine-synthesize", "synthesize failed: {}", e),
        };
        let mine = match render_with(engine, lines, stage, lg, alpha) {
            Ok(w) => w,
            Err(e) => fail!("engine-synthesize", "generator failed: {}", e),
        };
        // "handed to synthesis": what the engine's generator works from are the Gaussians of
        // Models, untouched - also for states that only become voiced under a low threshold
        // (unvoiced-only PDFs, whose log-F0 mean is 0 in trained voices)
        for thr in [None, Some(0.0)] {
            let mut e = engine.clone();
            if let Some(t) = thr {
                e.condition.set_msd_threshold(1, t);
            }
            let g = match e.generator(lines) {
                Ok(g) => g,
                Err(e) => fail!("engine-synthesize", "generator failed: {}", e),
            };
            let tr = crate::engine_util::trajectories(&g);
            let (durations, _, _) = super::c01::expected_durations(&e, lines, false)?;
            let publ = super::c01::public_trajectories(&e, lines, &durations)?;
            if let Some(d) = super::c01::traj_close(&tr, &publ, 1e-9) {
                fail!("handed-to-synthesis", "with the log-F0 voicing threshold {:?} the generator's trajectories are not those of the Gaussians that Models selects (MlpgAdjust on model_stream(i), durations from the duration model): {}", thr, d);
            }
        }
        ensure!(wave.len() == mine.len(), "engine-defaults", "waveform length {} != {} rendered with the header's GAMMA/LN_GAIN/ALPHA", wave.len(), mine.len());
        if let Some(i) = (0..wave.len()).find(|&i| wave[i].to_bits() != mine[i].to_bits() && !(wave[i].is_nan() && mine[i].is_nan())) {
            fail!(
                "engine-defaults",
                "engine waveform differs at sample {} ({:e} vs {:e}) from the one rendered with stage={} log_gain={} alpha={} taken from the file",
                i, wave[i], mine[i], stage, lg, alpha
            );
        }
    }
    Ok(())
}

#[derive(Debug, Clone, Serialize)]
pub struct BundledCase {
    pub source: String,
    pub labels: Vec<String>,
}

pub struct BundledLookup;

fn bundled_voice() -> Result<&'static Voice, String> {
    static V: OnceLock<Result<Voice, String>> = OnceLock::new();
    V.get_or_init(|| match catch(|| load_htsvoice_file(&bundled_path())) {
        Ok(Ok(v)) => Ok(v),
        Ok(Err(e)) => Err(format!("load_htsvoice_file(bundled) failed: {}", e)),
        Err(p) => Err(format!("load_htsvoice_file(bundled) panicked: {}", p.msg)),
    })
    .as_ref()
    .map_err(|e| e.clone())
}

/// The Gaussians "handed to synthesis" for a single voice (public `Models` with the default
/// weight 1.0) must be bit-equal to the file's float32 entries as well.
pub fn check_models_single(voice: &std::sync::Arc<Voice>, file: &FileVoice, labels: &[Label], texts: &[String]) -> Result<(), Failure> {
    use jbonsai::model::{InterporationWeight, Models, VoiceSet};
    let vs = match VoiceSet::new(vec![voice.clone()]) {
        Ok(v) => v,
        Err(e) => fail!("voiceset", "{}", e),
    };
    let iw = InterporationWeight::new(1, file.streams.len());
    let models = Models::new(labels, &vs, &iw);
    let ns = file.num_states;
    let bits = |a: f64, b: f32| a.to_bits() == (b as f64).to_bits();
    let dur = models.duration();
    ensure!(dur.len() == labels.len() * ns, "models-shape", "duration length {}", dur.len());
    for (li, text) in texts.iter().enumerate() {
        let (ti, pi, _) = file.duration.select(2, text).map_err(|e| Failure::new("oracle-walk", e))?;
        let want = file.duration.pdf_at(ti, pi).map_err(|e| Failure::new("oracle-walk", e))?;
        for s in 0..ns {
            let g = dur[li * ns + s];
            ensure!(bits(g.0, want[s]) && bits(g.1, want[s + ns]), "models-values", "Models::duration label {} state {}: ({:e},{:e}) is not bit-equal to the file's ({:e},{:e})", li, s, g.0, g.1, want[s], want[s + ns]);
        }
    }
    for (si, fs) in file.streams.iter().enumerate() {
        let ms = models.model_stream(si);
        ensure!(ms.stream.len() == labels.len() * ns, "models-shape", "stream {} length {}", si, ms.stream.len());
        for (li, text) in texts.iter().enumerate() {
            for s in 0..ns {
                let (ti, pi, _) = fs.model.select(s + 2, text).map_err(|e| Failure::new("oracle-walk", e))?;
                let want = fs.model.pdf_at(ti, pi).map_err(|e| Failure::new("oracle-walk", e))?;
                let len = (want.len() - fs.is_msd as usize) / 2;
                let (gp, gmsd) = &ms.stream[li * ns + s];
                ensure!(gp.len() == len, "models-shape", "stream {} vector size {}", si, gp.len());
                for k in 0..len {
                    ensure!(bits(gp[k].0, want[k]) && bits(gp[k].1, want[k + len]), "models-values", "Models::model_stream({}) label {} state {} dim {}: ({:e},{:e}) is not bit-equal to the file's ({:e},{:e})", si, li, s, k, gp[k].0, gp[k].1, want[k], want[k + len]);
                }
                if fs.is_msd {
                    ensure!(bits(*gmsd, want[2 * len]), "models-values", "Models::model_stream({}) label {} state {}: voicing weight {:e} is not bit-equal to the file's {:e}", si, li, s, gmsd, want[2 * len]);
                }
            }
        }
        if let (Some((gp, _)), Some(fg)) = (&ms.gv, &fs.gv) {
            let (ti, pi, _) = fg.select(2, &texts[0]).map_err(|e| Failure::new("oracle-walk", e))?;
            let want = fg.pdf_at(ti, pi).map_err(|e| Failure::new("oracle-walk", e))?;
            let len = want.len() / 2;
            for k in 0..len.min(gp.len()) {
                ensure!(bits(gp[k].0, want[k]) && bits(gp[k].1, want[k + len]), "models-values", "GV of stream {} dim {}: ({:e},{:e}) is not bit-equal to the file's ({:e},{:e})", si, k, gp[k].0, gp[k].1, want[k], want[k + len]);
            }
        }
    }
    Ok(())
}

pub fn check_voice_labels(voice: &Voice, file: &FileVoice, lines: &[String], rep: &mut Report) -> Result<usize, Failure> {
    let labels = match parse_lines(lines) {
        Ok(l) => l,
        Err(e) => fail!("label-parse", "generated label does not parse: {}", e),
    };
    let mut passed = 0usize;
    let states: Vec<usize> = (2..2 + file.num_states).collect();
    for (label, line) in labels.iter().zip(lines) {
        let text = label.to_string();
        ensure!(&text == line, "label-roundtrip", "label text changes when re-serialised: {} -> {}", line, text);
        check_model("duration", &voice.duration_model, &file.duration, &[2], label, &text, false, rep, &mut passed)?;
        for (sm, fs) in voice.stream_models.iter().zip(&file.streams) {
            check_model(&format!("stream {}", fs.name), &sm.stream_model, &fs.model, &states, label, &text, fs.is_msd, rep, &mut passed)?;
            if let (Some(gm), Some(fg)) = (&sm.gv_model, &fs.gv) {
                check_model(&format!("gv {}", fs.name), gm, fg, &[2], label, &text, false, rep, &mut passed)?;
            }
        }
        let off = voice.metadata.gv_off_context.test(label);
        let want = any_glob(&file.gv_off_context, &text);
        ensure!(off == want, "gv-off-context", "GV-off context test {} != glob {} for {}", off, want, text);
    }
    Ok(passed)
}

impl Prop for BundledLookup {
    type Case = BundledCase;
    fn name(&self) -> String {
        "bundled-lookup".into()
    }
    fn rule(&self) -> String {
        "bundled voice; 1..8 labels from {consecutive corpus window | shuffled corpus lines | slot-wise recombined}; for each label all 18 trees (duration, 3 streams x 5 states, 2 GV): get_index/get_parameter vs independent reader + glob walk, bit-equal f32 entries; metadata/options/windows/engine defaults vs header. Non-trivial: every case (each label passes >= 30 questions); distinct by label set".into()
    }
    fn tape_len(&self, _: Tier) -> usize {
        8 * 64 + 8
    }
    fn cases(&self, tier: Tier) -> u32 {
        tier.pick(8_000, 120_000)
    }
    fn decode(&self, t: &mut Tape, _: Tier) -> BundledCase {
        let n = t.urange(1, 8);
        let (labels, src) = gen_label_lines(t, n, false);
        BundledCase { source: src.name().into(), labels }
    }
    fn check(&self, c: &BundledCase) -> Result<Report, Failure> {
        let voice = match bundled_voice() {
            Ok(v) => v,
            Err(e) => fail!("bundled-load", "{}", e),
        };
        let file = bundled_file_voice();
        let mut rep = Report::new();
        check_static(voice, file)?;
        let passed = check_voice_labels(voice, file, &c.labels, &mut rep)?;
        let e = match bundled_engine() {
            Ok(e) => e,
            Err(e) => fail!("bundled-load", "{}", e),
        };
        check_engine_defaults(e, file, &c.labels[..1])?;
        rep.nontrivial = passed >= 1;
        rep.class(format!("source:{}", c.source));
        Ok(rep)
    }
}

#[derive(Debug, Clone, Serialize)]
pub struct GeneratedCase {
    pub voice: VoiceSpec,
    pub source: String,
    pub labels: Vec<String>,
}

pub struct GeneratedVoice;

/// Spec vs independent reader (validates the oracle itself).
fn check_reader_against_spec(spec: &VoiceSpec, file: &FileVoice) -> Result<(), Failure> {
    let bad = |what: &str| Failure::new("harness-reader-vs-spec", format!("independent reader disagrees with the written spec on {}", what));
    if file.sampling_frequency != spec.sampling_frequency || file.frame_period != spec.frame_period || file.num_states != spec.num_states {
        return Err(bad("global numbers"));
    }
    if file.streams.len() != spec.streams.len() {
        return Err(bad("stream count"));
    }
    let cmp_model = |f: &FileModel, s: &crate::voice::ModelSpec| -> bool {
        if f.trees.len() != s.trees.len() {
            return false;
        }
        for ((ft, st), fp) in f.trees.iter().zip(&s.trees).zip(&f.pdf) {
            if ft.state != st.state || ft.nodes.len() != st.nodes.len() || fp.len() != st.pdfs.len() {
                return false;
            }
            for (a, b) in fp.iter().zip(&st.pdfs) {
                if a.iter().zip(b).any(|(x, y)| x.to_bits() != y.to_bits()) || a.len() != b.len() {
                    return false;
                }
            }
            for (fnode, snode) in ft.nodes.iter().zip(&st.nodes) {
                if fnode.id != snode.id || fnode.question != s.questions[snode.question].0 {
                    return false;
                }
            }
        }
        true
    };
    if !cmp_model(&file.duration, &spec.duration) {
        return Err(bad("duration model"));
    }
    for (fs, ss) in file.streams.iter().zip(&spec.streams) {
        if fs.name != ss.name || fs.vector_length != ss.vector_length || fs.is_msd != ss.is_msd || fs.use_gv != ss.use_gv || fs.windows != ss.windows || fs.options != ss.options {
            return Err(bad("stream header"));
        }
        if !cmp_model(&fs.model, &ss.model) {
            return Err(bad("stream model"));
        }
        match (&fs.gv, &ss.gv) {
            (Some(a), Some(b)) => {
                if !cmp_model(a, b) {
                    return Err(bad("gv model"));
                }
            }
            (None, None) => {}
            _ => return Err(bad("gv presence")),
        }
    }
    Ok(())
}

impl Prop for GeneratedVoice {
    type Case = GeneratedCase;
    fn name(&self) -> String {
        "generated-voice".into()
    }
    fn rule(&self) -> String {
        "generated .htsvoice (states 1..7, 2/3 streams, MCP or LSP, vector lengths, window sets incl. width 5, random trees incl. single-leaf, quoted/unquoted leaves, non-contiguous node ids, questions sampled from the bundled voice's real questions + regex-fallback questions) written by the harness, loaded by jbonsai; 6..20 labels; same oracle as bundled-lookup plus the written spec. Non-trivial: at least one walk passes a question".into()
    }
    fn tape_len(&self, _: Tier) -> usize {
        10000
    }
    fn cases(&self, tier: Tier) -> u32 {
        tier.pick(6_000, 100_000)
    }
    fn decode(&self, t: &mut Tape, _: Tier) -> GeneratedCase {
        let n = t.urange(6, 20);
        let (labels, src) = gen_label_lines(t, n, false);
        let voice = gen_voice(t, GenOpts::default());
        GeneratedCase { voice, source: src.name().into(), labels }
    }
    fn check(&self, c: &GeneratedCase) -> Result<Report, Failure> {
        let bytes = c.voice.to_bytes();
        let file = match read_voice(&bytes) {
            Ok(f) => f,
            Err(e) => fail!("harness-reader", "independent reader cannot read the generated voice: {}", e),
        };
        check_reader_against_spec(&c.voice, &file)?;
        // half of the cases reuse one path per thread for ever-changing contents
        let reuse = c.voice.num_states % 2 == 0;
        let tmp = TempVoice(if reuse { crate::voice::write_temp_reused(&bytes, "c04") } else { write_temp(&bytes, "c04") });
        let voice = match load_htsvoice_file(&tmp.0) {
            Ok(v) => v,
            Err(e) => fail!("load-valid-voice", "jbonsai rejects a well-formed generated voice: {}", e),
        };
        check_static(&voice, &file)?;
        let mut rep = Report::new();
        let passed = check_voice_labels(&voice, &file, &c.labels, &mut rep)?;
        {
            let labels = parse_lines(&c.labels).map_err(|e| Failure::new("label-parse", e))?;
            check_models_single(&std::sync::Arc::new(voice.clone()), &file, &labels, &c.labels)?;
        }
        let engine = match Engine::load(&[&tmp.0]) {
            Ok(e) => e,
            Err(e) => fail!("load-valid-voice", "Engine::load rejects a well-formed generated voice: {}", e),
        };
        check_engine_defaults(&engine, &file, &c.labels[..2.min(c.labels.len())])?;
        // the defaults are those of the header also when the Condition served another voice before
        // (options the new header does not list fall back to the format defaults, not to the old voice)
        if c.labels.len() % 3 == 0 {
            let prior = if c.labels.len() % 4 == 1 { super::c01::prior_lsp_log_gain_set()? } else { super::c01::prior_voice_set(c.labels.len() % 2 == 0)? };
            let mut cond = jbonsai::Condition::default();
            let ok = cond.load_model(&prior).is_ok() && cond.load_model(&engine.voices).is_ok();
            ensure!(ok, "engine-defaults", "Condition::load_model failed on valid voices");
            let reused = Engine::new(engine.voices.clone(), cond);
            check_engine_defaults(&reused, &file, &c.labels[..1.min(c.labels.len())])?;
            rep.class("condition-loaded-for-another-voice-first");
        }
        rep.nontrivial = passed >= 1;
        rep.class(format!("source:{}", c.source));
        rep.class(format!("streams:{}", c.voice.streams.len()));
        rep.class(format!("spectrum:{}", c.voice.streams[0].name));
        rep.class(format!("nstate:{}", c.voice.num_states));
        let single = c.voice.streams.iter().flat_map(|s| s.model.trees.iter()).filter(|t| t.nodes.is_empty()).count();
        rep.class_if(single > 0, "has-single-leaf-tree");
        rep.class_if(reuse, "path-reused");
        rep.class_if(c.voice.streams.iter().any(|s| s.windows.iter().any(|w| w.len() == 5)), "has-width5-window");
        Ok(rep)
    }
}
