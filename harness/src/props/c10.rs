//! C10 Voice interpolation is the weighted average.

use std::sync::Arc;

use serde::Serialize;

use jbonsai::model::{load_htsvoice_file, Models, Voice};

use crate::corpus::{gen_label_lines, parse_lines};
use crate::engine_case::{bundled_voice_arc, engine_from_voices, perturbed_voice, NPERTURBED};
use crate::runner::{DynProp, Failure, Prop, Report, Tier};
use crate::tape::Tape;
use crate::util::catch;
use crate::voice::{gen_voice, variant_voice, write_temp, GenOpts, TempVoice, VoiceSpec};
use crate::{ensure, fail};

use super::{no_custom, no_extra, PropertyDef};

pub fn def() -> PropertyDef {
    PropertyDef {
        id: "C10",
        level: "exploration",
        props: |_| vec![Box::new(Interpolation) as Box<dyn DynProp>],
        extra: no_extra,
        replay_custom: no_custom,
        assumptions: &[
            "oracle: sum_v w_v x (Gaussian selected by voice v's own trees, via the public per-voice Model::get_parameter) for mean, variance and voicing weight, using the weight vector of that quantity only (all vectors are generated independently); tolerance 1e-12 relative to sum_v |w_v x_v|",
            "weights are dyadic (k/64) so that they sum to exactly 1",
            "per-voice tree selection itself is decided by C04",
        ],
    }
}

#[derive(Debug, Clone, Serialize)]
pub enum Family {
    /// indices: 0 = bundled, k>0 = perturbed copy k-1
    Bundled(Vec<usize>),
    Generated(Vec<VoiceSpec>),
}

#[derive(Debug, Clone, Serialize)]
pub struct Case {
    pub family: Family,
    pub source: String,
    pub labels: Vec<String>,
    pub w_duration: Vec<f64>,
    pub w_parameter: Vec<Vec<f64>>,
    pub w_gv: Vec<Vec<f64>>,
    pub identical: bool,
    /// order in which the accessors of the one Models value are called: 0 duration first, 1 streams
    /// in reverse and duration last, 2 every accessor twice (the first answer is discarded)
    pub access_order: usize,
}

/// Dyadic weights k/64 summing to exactly 1; modes: vertex, simplex interior, negative / over-unity.
pub fn gen_weights(t: &mut Tape, n: usize) -> Vec<f64> {
    if n == 1 {
        return vec![1.0];
    }
    match t.weighted(&[4, 8, 6, 6, 2, 1]) {
        4 => {
            // next to a vertex: one voice carries almost everything, the others a tiny (exactly
            // representable) share each - still a weighted average
            let k = t.below(n);
            let eps = 2f64.powi(-(t.urange(20, 50) as i32));
            (0..n).map(|i| if i == k { 1.0 - (n as f64 - 1.0) * eps } else { eps }).collect()
        }
        5 => {
            // one weight exactly 1 while the others cancel: (1, e, -e, 0..) is NOT the first voice alone
            if n < 3 {
                return vec![1.0, 0.0][..n].to_vec();
            }
            let e = t.dyadic(1, 64, 64);
            let mut w = vec![0.0; n];
            let k = t.below(n);
            w[k] = 1.0;
            w[(k + 1) % n] = e;
            w[(k + 2) % n] = -e;
            w
        }
        3 => {
            // arbitrary (non-dyadic) weights: the last one closes the sum; accepted by the
            // library iff the sum taken in order is within f64::EPSILON of 1
            let mut w: Vec<f64> = (0..n - 1).map(|_| t.uniform(0.02, 1.0) / n as f64).collect();
            let s: f64 = w.iter().sum();
            w.push(1.0 - s);
            let total: f64 = w.iter().sum();
            if (total - 1.0).abs() <= f64::EPSILON && w[n - 1] > 0.0 {
                w
            } else {
                let mut v = vec![0.0; n];
                v[0] = 1.0;
                v
            }
        }
        0 => {
            let k = t.below(n);
            (0..n).map(|i| if i == k { 1.0 } else { 0.0 }).collect()
        }
        1 => {
            // interior of the simplex: random composition of 64
            let mut cuts: Vec<i64> = (0..n - 1).map(|_| t.range(0, 64)).collect();
            cuts.sort();
            let mut w = Vec::with_capacity(n);
            let mut prev = 0;
            for c in cuts {
                w.push((c - prev) as f64 / 64.0);
                prev = c;
            }
            w.push((64 - prev) as f64 / 64.0);
            w
        }
        _ => {
            let mut ks: Vec<i64> = (0..n - 1).map(|_| t.range(-48, 112)).collect();
            let s: i64 = ks.iter().sum();
            ks.push(64 - s);
            ks.iter().map(|k| *k as f64 / 64.0).collect()
        }
    }
}

/// What one voice's own trees select, as plain numbers. For generated families it is taken from the
/// harness's independent reader of the voice FILE (glob matching on the label text), so that it does
/// not depend on what the loader made of the trees; for the bundled family from the parsed voice
/// (whose agreement with the file is C04's subject).
#[derive(Debug, Clone, PartialEq)]
struct Sel {
    params: Vec<(f64, f64)>,
    msd: Option<f64>,
}

fn sel_parsed(p: &jbonsai::model::voice::model::ModelParameter) -> Sel {
    Sel { params: p.parameters.iter().map(|m| (m.0, m.1)).collect(), msd: p.msd }
}

fn sel_file(m: &crate::hts_reader::FileModel, state: usize, text: &str, is_msd: bool) -> Result<Sel, Failure> {
    let (ti, pi, _) = m.select(state, text).map_err(|e| Failure::new("oracle-walk", e))?;
    let want = m.pdf_at(ti, pi).map_err(|e| Failure::new("oracle-walk", e))?;
    let len = (want.len() - is_msd as usize) / 2;
    Ok(Sel { params: (0..len).map(|k| (want[k] as f64, want[k + len] as f64)).collect(), msd: if is_msd { Some(want[2 * len] as f64) } else { None } })
}

pub struct Interpolation;

impl Prop for Interpolation {
    type Case = Case;
    fn name(&self) -> String {
        "interpolation".into()
    }
    fn rule(&self) -> String {
        "1..4 compatible voices: {bundled voice + its PDF-perturbed copies} or {generated voice + variants with the same metadata but different trees and PDFs}; independent weight vectors (vertices, simplex interior, negative / over-unity components, non-dyadic, next to a vertex with shares of 2^-20..2^-50, one weight exactly 1 with the others cancelling) for duration, every stream and every GV; 1..6 labels; Models::duration / model_stream(i).stream / .gv vs the weighted sum of per-voice Gaussians; vertex weights (1,0,..) reproduce the first voice's waveform; identical voices reproduce the single voice. Non-trivial: >= 2 voices with pairwise different selected PDFs and non-vertex weights".into()
    }
    fn tape_len(&self, _: Tier) -> usize {
        16000
    }
    fn cases(&self, tier: Tier) -> u32 {
        tier.pick(10_000, 150_000)
    }
    fn decode(&self, t: &mut Tape, _: Tier) -> Case {
        let n = t.urange(1, 4);
        let nl = t.urange(1, 6);
        let (labels, src) = gen_label_lines(t, nl, false);
        let identical = n >= 2 && t.chance(0.12);
        let mut var_scaled = false;
        let family = if t.chance(0.3) {
            let mut ids: Vec<usize> = Vec::new();
            let first = t.below(NPERTURBED + 1);
            for i in 0..n {
                ids.push(if identical { first } else if i == 0 { first } else { t.below(NPERTURBED + 1) });
            }
            Family::Bundled(ids)
        } else {
            let base = gen_voice(t, GenOpts { max_depth: 3, ..GenOpts::default() });
            let mut v = vec![base.clone()];
            // one generated family in seven: the other voices differ from the base in the voicing
            // weights ONLY (same trees, means and variances)
            let msd_only = !identical && t.chance(0.15);
            // one in twelve: the other voices are the base voice with every stream variance times 4
            // or 8; under extrapolating weights (1+e on the base, -e on one of them) every blended variance is negative
            var_scaled = !identical && !msd_only && n >= 2 && t.chance(0.08);
            let scale = if t.chance(0.5) { 4.0f32 } else { 8.0 };
            for _ in 1..n {
                v.push(if identical {
                    base.clone()
                } else if var_scaled {
                    let mut o = base.clone();
                    for s in o.streams.iter_mut() {
                        let msd = s.is_msd as usize;
                        for tree in s.model.trees.iter_mut() {
                            for p in tree.pdfs.iter_mut() {
                                let half = (p.len() - msd) / 2;
                                for x in p[half..2 * half].iter_mut() {
                                    *x *= scale;
                                }
                            }
                        }
                    }
                    o
                } else if msd_only {
                    let mut o = base.clone();
                    for s in o.streams.iter_mut().filter(|s| s.is_msd) {
                        for tree in s.model.trees.iter_mut() {
                            for p in tree.pdfs.iter_mut() {
                                if let Some(w) = p.last_mut() {
                                    *w = match t.below(4) {
                                        0 => 1.0 - *w,
                                        1 => 0.0,
                                        _ => t.unit() as f32,
                                    };
                                }
                            }
                        }
                    }
                    o
                } else {
                    variant_voice(t, &base)
                });
            }
            Family::Generated(v)
        };
        let nstreams = match &family {
            Family::Bundled(_) => 3,
            Family::Generated(v) => v[0].streams.len(),
        };
        let mut w_duration = gen_weights(t, n);
        let mut w_parameter: Vec<Vec<f64>> = (0..nstreams).map(|_| gen_weights(t, n)).collect();
        let mut w_gv: Vec<Vec<f64>> = (0..nstreams).map(|_| gen_weights(t, n)).collect();
        if var_scaled {
            for w in w_parameter.iter_mut() {
                // dyadic e in [0.45, 1.5]: (1+e) + (-e) is exactly 1; the further voices get 0
                let e = t.urange(29, 96) as f64 / 64.0;
                let k = 1 + t.below(n - 1);
                *w = (0..n).map(|i| if i == 0 { 1.0 + e } else if i == k { -e } else { 0.0 }).collect();
            }
        }
        // structured boundary: every quantity on the same vertex except one or two
        if n >= 2 && !var_scaled && t.chance(0.25) {
            let k = t.below(n);
            let vertex: Vec<f64> = (0..n).map(|i| if i == k { 1.0 } else { 0.0 }).collect();
            let keep: Vec<usize> = (0..t.urange(1, 2)).map(|_| t.below(1 + 2 * nstreams)).collect();
            let mut slot = 0;
            let mut set = |w: &mut Vec<f64>| {
                if !keep.contains(&slot) {
                    *w = vertex.clone();
                }
                slot += 1;
            };
            set(&mut w_duration);
            for w in w_parameter.iter_mut() {
                set(w);
            }
            for w in w_gv.iter_mut() {
                set(w);
            }
        }
        Case { family, source: src.name().into(), labels, w_duration, w_parameter, w_gv, identical, access_order: t.weighted(&[2, 1, 1]) }
    }
    fn check(&self, c: &Case) -> Result<Report, Failure> {
        let mut tmps = Vec::new();
        let voices: Vec<Arc<Voice>> = match &c.family {
            Family::Bundled(ids) => {
                let mut v = Vec::new();
                for id in ids {
                    v.push(if *id == 0 { bundled_voice_arc()? } else { perturbed_voice(id - 1)? });
                }
                v
            }
            Family::Generated(specs) => {
                let mut v = Vec::new();
                for s in specs {
                    let tmp = TempVoice(write_temp(&s.to_bytes(), "c10"));
                    match load_htsvoice_file(&tmp.0) {
                        Ok(voice) => v.push(Arc::new(voice)),
                        Err(e) => fail!("load-valid-voice", "generated voice rejected: {}", e),
                    }
                    tmps.push(tmp);
                }
                v
            }
        };
        let n = voices.len();
        let files: Option<Vec<crate::hts_reader::FileVoice>> = match &c.family {
            Family::Generated(specs) => Some(specs.iter().map(|s| crate::hts_reader::read_voice(&s.to_bytes()).map_err(|e| Failure::new("harness-reader", e))).collect::<Result<Vec<_>, _>>()?),
            _ => None,
        };
        let mut engine = engine_from_voices(voices.clone())?;
        {
            // defaults: equal weights
            let iw = engine.condition.get_interporation_weight();
            let avg = 1.0 / n as f64;
            ensure!(iw.get_duration().iter().all(|w| *w == avg) && iw.get_duration().len() == n, "default-weights", "default duration weights {:?} are not the average of {} voices", &iw.get_duration()[..], n);
        }
        let nstreams = engine.voices.global_metadata().num_streams;
        {
            let iw = engine.condition.get_interporation_weight_mut();
            // the three kinds of weights are independent settings: the order of the calls (and
            // re-sending one of them) must not matter
            let dur = |iw: &mut jbonsai::model::interporation_weight::InterporationWeight| -> Result<(), Failure> {
                iw.set_duration(&c.w_duration).map_err(|e| Failure::new("valid-weights-rejected", format!("set_duration({:?}) rejected: {}", c.w_duration, e)))
            };
            let par = |iw: &mut jbonsai::model::interporation_weight::InterporationWeight, i: usize| -> Result<(), Failure> {
                iw.set_parameter(i, &c.w_parameter[i]).map_err(|e| Failure::new("valid-weights-rejected", format!("set_parameter({}, {:?}) rejected: {}", i, c.w_parameter[i], e)))
            };
            let gv = |iw: &mut jbonsai::model::interporation_weight::InterporationWeight, i: usize| -> Result<(), Failure> {
                iw.set_gv(i, &c.w_gv[i]).map_err(|e| Failure::new("valid-weights-rejected", format!("set_gv({}, {:?}) rejected: {}", i, c.w_gv[i], e)))
            };
            match c.access_order {
                0 => {
                    dur(iw)?;
                    for i in 0..nstreams {
                        par(iw, i)?;
                        gv(iw, i)?;
                    }
                }
                1 => {
                    for i in (0..nstreams).rev() {
                        gv(iw, i)?;
                    }
                    for i in 0..nstreams {
                        par(iw, i)?;
                    }
                    dur(iw)?;
                }
                _ => {
                    for i in 0..nstreams {
                        par(iw, i)?;
                        gv(iw, i)?;
                    }
                    dur(iw)?;
                    // parameter and duration weights re-sent, GV weights not
                    for i in 0..nstreams {
                        par(iw, i)?;
                    }
                    dur(iw)?;
                }
            }
        }
        let labels = match parse_lines(&c.labels) {
            Ok(l) => l,
            Err(e) => fail!("label-parse", "{}", e),
        };
        let models = Models::new(&labels, &engine.voices, engine.condition.get_interporation_weight());
        let nstate = models.nstate();
        let close = |got: f64, terms: &[(f64, f64)]| -> bool {
            let want: f64 = terms.iter().map(|(w, x)| w * x).sum();
            let scale: f64 = terms.iter().map(|(w, x)| (w * x).abs()).sum();
            (got - want).abs() <= 1e-12 * scale.max(1e-300)
        };
        let mut rep = Report::new();
        let mut differing = false;
        // all answers of the one Models value, requested in the case's order
        let mut dur = None;
        let mut streams_got: Vec<Option<jbonsai::model::ModelStream>> = (0..nstreams).map(|_| None).collect();
        let seq: Vec<usize> = match c.access_order {
            0 => (0..=nstreams).collect(),
            1 => (0..=nstreams).rev().collect(),
            _ => (0..=nstreams).rev().chain(0..=nstreams).collect(),
        };
        for k in seq {
            if k == 0 {
                dur = Some(models.duration());
            } else {
                streams_got[k - 1] = Some(models.model_stream(k - 1));
            }
        }
        let dur = dur.unwrap_or_default();
        ensure!(dur.len() == labels.len() * nstate, "interp-shape", "duration length {}", dur.len());
        for (li, l) in labels.iter().enumerate() {
            let per: Vec<Sel> = match &files {
                Some(fs) => fs.iter().map(|f| sel_file(&f.duration, 2, &c.labels[li], false)).collect::<Result<Vec<_>, _>>()?,
                None => voices.iter().map(|v| sel_parsed(&v.duration_model.get_parameter(2, l))).collect(),
            };
            for s in 0..nstate {
                let m: Vec<(f64, f64)> = per.iter().zip(&c.w_duration).map(|(p, w)| (*w, p.params[s].0)).collect();
                let v: Vec<(f64, f64)> = per.iter().zip(&c.w_duration).map(|(p, w)| (*w, p.params[s].1)).collect();
                let got = dur[li * nstate + s];
                ensure!(close(got.0, &m) && close(got.1, &v), "interp-duration", "label {} state {}: duration Gaussian ({:e},{:e}) is not the weighted average with weights {:?} of {:?}", li, s, got.0, got.1, c.w_duration, m);
            }
        }
        // streams and GV
        for i in 0..nstreams {
            let Some(ms) = streams_got[i].take() else { fail!("harness", "stream {} not requested", i) };
            ensure!(ms.stream.len() == labels.len() * nstate, "interp-shape", "stream {} length {}", i, ms.stream.len());
            let w = &c.w_parameter[i];
            for (li, l) in labels.iter().enumerate() {
                for s in 0..nstate {
                    let per: Vec<Sel> = match &files {
                        Some(fs) => fs.iter().map(|f| sel_file(&f.streams[i].model, s + 2, &c.labels[li], f.streams[i].is_msd)).collect::<Result<Vec<_>, _>>()?,
                        None => voices.iter().map(|v| sel_parsed(&v.stream_models[i].stream_model.get_parameter(s + 2, l))).collect(),
                    };
                    if n >= 2 && per.windows(2).any(|p| p[0] != p[1]) {
                        differing = true;
                    }
                    let (gp, gmsd) = &ms.stream[li * nstate + s];
                    ensure!(gp.len() == per[0].params.len(), "interp-shape", "stream {} vector size", i);
                    for k in 0..gp.len() {
                        let m: Vec<(f64, f64)> = per.iter().zip(w).map(|(p, w)| (*w, p.params[k].0)).collect();
                        let v: Vec<(f64, f64)> = per.iter().zip(w).map(|(p, w)| (*w, p.params[k].1)).collect();
                        ensure!(
                            close(gp[k].0, &m) && close(gp[k].1, &v),
                            "interp-stream",
                            "stream {} label {} state {} dim {}: ({:e},{:e}) is not the average with the stream's parameter weights {:?} of means {:?}",
                            i, li, s, k, gp[k].0, gp[k].1, w, m
                        );
                    }
                    match per[0].msd {
                        Some(_) => {
                            let m: Vec<(f64, f64)> = per.iter().zip(w).map(|(p, w)| (*w, p.msd.unwrap_or(f64::NAN))).collect();
                            ensure!(close(*gmsd, &m), "interp-msd", "stream {} label {} state {}: voicing weight {:e} is not the weighted average of {:?}", i, li, s, gmsd, m);
                        }
                        None => ensure!(*gmsd == f64::MAX, "interp-msd", "stream {} is not multi-space but its voicing weight is {:e}", i, gmsd),
                    }
                }
            }
            let has_gv = engine.voices.stream_metadata(i).use_gv;
            match (&ms.gv, has_gv) {
                (Some((params, _switch)), true) => {
                    let w = &c.w_gv[i];
                    let per: Vec<Option<Sel>> = match &files {
                        Some(fs) => fs.iter().map(|f| f.streams[i].gv.as_ref().map(|g| sel_file(g, 2, &c.labels[0], false)).transpose()).collect::<Result<Vec<_>, _>>()?,
                        None => voices.iter().map(|v| v.stream_models[i].gv_model.as_ref().map(|g| sel_parsed(&g.get_parameter(2, &labels[0])))).collect(),
                    };
                    ensure!(per.iter().all(|p| p.is_some()), "interp-gv", "stream {} uses GV but a voice has no GV model", i);
                    for k in 0..params.len() {
                        let m: Vec<(f64, f64)> = per.iter().zip(w).map(|(p, w)| (*w, p.as_ref().unwrap().params[k].0)).collect();
                        let v: Vec<(f64, f64)> = per.iter().zip(w).map(|(p, w)| (*w, p.as_ref().unwrap().params[k].1)).collect();
                        ensure!(close(params[k].0, &m) && close(params[k].1, &v), "interp-gv", "stream {} GV dim {}: ({:e},{:e}) is not the average with the stream's GV weights {:?} of {:?}", i, k, params[k].0, params[k].1, w, m);
                    }
                }
                (None, false) => {}
                (g, h) => fail!("interp-gv", "stream {}: GV parameters present = {} but USE_GV = {}", i, g.is_some(), h),
            }
        }
        // "used for synthesis": where extrapolating weights make EVERY blended variance of a stream
        // negative, the normal equations W'PW c = W'P mu are those of the positive precisions |P|
        // (a common sign cancels), so parameter generation from the blended Gaussians must give
        // the trajectory it gives for the same means with the variances' magnitudes
        for i in 0..nstreams {
            let ms = models.model_stream(i);
            let all_negative = !ms.stream.is_empty() && ms.stream.iter().all(|(p, _)| p.iter().all(|mv| mv.1 < -1e-12 && mv.1 > -1e12));
            if !all_negative {
                continue;
            }
            let durations: Vec<usize> = models.duration().iter().map(|mv| mv.0.round().clamp(1.0, 6.0) as usize).collect();
            let magnitudes = jbonsai::model::StreamParameter::new(ms.stream.iter().map(|(p, w)| (p.iter().map(|mv| jbonsai::model::MeanVari(mv.0, -mv.1)).collect(), *w)).collect());
            let thr = engine.condition.get_msd_threshold(i);
            let blended = jbonsai::mlpg_adjust::MlpgAdjust::new(0.0, thr, jbonsai::model::ModelStream { vector_length: ms.vector_length, stream: ms.stream.clone(), gv: None, windows: ms.windows }).create(&durations);
            let reference = jbonsai::mlpg_adjust::MlpgAdjust::new(0.0, thr, jbonsai::model::ModelStream { vector_length: ms.vector_length, stream: magnitudes, gv: None, windows: ms.windows }).create(&durations);
            ensure!(blended.len() == reference.len(), "interp-negative-variance", "stream {}: {} vs {} frames", i, blended.len(), reference.len());
            for (f, (a, b)) in blended.iter().zip(&reference).enumerate() {
                for (k, (x, y)) in a.iter().zip(b).enumerate() {
                    let ok = x == y || (x - y).abs() <= 1e-9 * x.abs().max(y.abs()).max(1e-6);
                    ensure!(ok, "interp-negative-variance", "stream {} frame {} dim {}: parameter generation from the blended Gaussians (all variances negative under weights {:?}) gives {:e}, the normal equations of those Gaussians give {:e}", i, f, k, c.w_parameter[i], x, y);
                }
            }
            rep.class("negative-variance-stream-checked");
        }
        // vertex weights reproduce the first voice alone
        let vertex = (1..n).all(|k| c.w_duration[k] == 0.0 && c.w_parameter.iter().all(|w| w[k] == 0.0) && c.w_gv.iter().all(|w| w[k] == 0.0)) && c.w_duration[0] == 1.0;
        let frames_ok = |e: &jbonsai::Engine| -> Result<bool, Failure> {
            match catch(|| e.generator(c.labels.as_slice()).map(|g| crate::engine_util::trajectories(&g).lf0.len() * e.condition.get_fperiod())) {
                Ok(Ok(n)) => Ok(n <= 400_000),
                Ok(Err(e)) => Err(Failure::new("generator", e.to_string())),
                Err(p) => Err(Failure::new(p.signature(), p.msg)),
            }
        };
        if (vertex || c.identical) && frames_ok(&engine)? {
            let single = engine_from_voices(vec![voices[0].clone()])?;
            let a = engine.synthesize(c.labels.as_slice()).map_err(|e| Failure::new("synthesize-error", e.to_string()))?;
            let b = single.synthesize(c.labels.as_slice()).map_err(|e| Failure::new("synthesize-error", e.to_string()))?;
            ensure!(a.len() == b.len(), "interp-vertex", "waveform length {} vs single voice {}", a.len(), b.len());
            if vertex {
                if let Some(i) = (0..a.len()).find(|&i| !(a[i] == b[i] || (a[i].is_nan() && b[i].is_nan()))) {
                    fail!("interp-vertex", "weights (1,0,..) do not reproduce the first voice: sample {} is {:e} vs {:e}", i, a[i], b[i]);
                }
                rep.class("vertex-waveform-checked");
            } else {
                rep.class("identical-voices");
            }
        }
        if c.identical {
            // parameters equal the single voice up to rounding: covered by the weighted-sum oracle
            // (all per-voice Gaussians are equal and the weights sum to 1)
            rep.class("identical-voices-params");
        }
        let non_vertex = c.w_parameter.iter().chain(c.w_gv.iter()).chain(std::iter::once(&c.w_duration)).any(|w| w.iter().any(|x| *x != 0.0 && *x != 1.0));
        rep.nontrivial = n >= 2 && differing && non_vertex;
        rep.class(format!("voices:{}", n));
        rep.class(match &c.family { Family::Bundled(_) => "family:bundled", Family::Generated(_) => "family:generated" });
        rep.class_if(c.w_parameter.iter().any(|w| w.iter().any(|x| *x < 0.0 || *x > 1.0)), "negative-or-over-unity");
        drop(tmps);
        Ok(rep)
    }
}
