//! C19 Voice sets and interpolation weights are validated.

use std::sync::Arc;

use serde::Serialize;

use jbonsai::model::{load_htsvoice_file, Voice, VoiceSet};
use jbonsai::Engine;

use crate::corpus::gen_label_lines;
use crate::engine_case::engine_from_voices;
use crate::engine_util::bits_equal;
use crate::runner::{DynProp, Failure, Prop, Report, Tier};
use crate::tape::Tape;
use crate::voice::{gen_voice, variant_voice, write_temp, GenOpts, ModelSpec, TempVoice, TreeSpec, VoiceSpec};
use crate::{ensure, fail};

use super::c10::gen_weights;
use super::{no_custom, no_extra, PropertyDef};

pub fn def() -> PropertyDef {
    PropertyDef {
        id: "C19",
        level: "exploration",
        props: |_| vec![Box::new(MetadataMismatch) as Box<dyn DynProp>, Box::new(WeightHistory) as Box<dyn DynProp>],
        extra: no_extra,
        replay_custom: no_custom,
        assumptions: &[
            "every variant voice is a complete, loadable .htsvoice file that differs from the base voice in exactly one metadata field (models are rebuilt so that the file stays well-formed)",
            "weight updates: valid = right length and dyadic components summing to exactly 1; invalid = wrong length, sum off by >= 1e-6, NaN or +-inf components; sums off by less than 1e-6 are not generated (the property leaves them open)",
            "reference model: last accepted vector per slot (duration / parameter[i] / gv[i]); getters must equal it bitwise and the final waveform must equal that of a fresh engine given only the accepted vectors",
        ],
    }
}

pub const FIELDS: &[&str] = &[
    "none", "sampling-rate", "frame-period", "states", "streams", "vector-length", "windows-count", "msd-flag", "gv-flag", "option", "gv-off-context", "fullcontext-version",
];

fn trivial_gv(l: usize) -> ModelSpec {
    let mut pdf = vec![0.01f32; l];
    pdf.extend(vec![1e-4f32; l]);
    ModelSpec {
        prefix: "gvx".into(),
        questions: vec![],
        trees: vec![TreeSpec { state: 2, nodes: vec![], leaf: 1, pdfs: vec![pdf], npdf: 1, quoted: true }],
        pdf_len: 2 * l,
    }
}

/// Rebuild a PDF with layout [means nw*l | vars nw*l | msd?] for a new (nw, l).
fn reshape_pdf(p: &[f32], nw: usize, l: usize, new_nw: usize, new_l: usize, msd: bool, new_msd: bool) -> Vec<f32> {
    let mut out = Vec::new();
    for part in 0..2 {
        for w in 0..new_nw {
            for k in 0..new_l {
                let v = if w < nw && k < l { p[part * nw * l + w * l + k] } else if part == 0 { 0.0 } else { 1.0 };
                out.push(v);
            }
        }
    }
    if new_msd {
        out.push(if msd { p[2 * nw * l] } else { 1.0 });
    }
    out
}

/// Returns None when the field cannot be varied on this voice.
pub fn vary_field(base: &VoiceSpec, field: &str, pick: usize) -> Option<VoiceSpec> {
    let mut v = base.clone();
    match field {
        "none" => {}
        "sampling-rate" => v.sampling_frequency = if base.sampling_frequency == 16000 { 22050 } else { 16000 },
        // (one variant in three: the degenerate value 0 - a header value like any other as far as
        // "do the two voices agree" is concerned)
        "frame-period" => v.frame_period = if pick % 3 == 2 { 0 } else { base.frame_period + 1 + pick % 3 },
        "gv-off-context" => v.gv_off_context.push("*-xx+*".into()),
        "fullcontext-version" => v.fullcontext_version = if base.fullcontext_version == "1.1" { "1.2".into() } else { "1.1".into() },
        "option" if pick % 3 == 1 => {
            // same number of entries, one meaningful entry (non-zero stage or log gain) replaced by a
            // copy of another one: every entry of the odd voice also occurs in the others' list
            let o = &mut v.streams[0].options;
            let victim = o.iter().position(|x| (x.starts_with("GAMMA=") && x != "GAMMA=0") || x == "LN_GAIN=1")?;
            let donor = (0..o.len()).find(|i| *i != victim)?;
            o[victim] = o[donor].clone();
        }
        "option" if pick % 3 == 2 => {
            // one meaningful entry removed
            let o = &mut v.streams[0].options;
            let victim = o.iter().position(|x| (x.starts_with("GAMMA=") && x != "GAMMA=0") || x == "LN_GAIN=1")?;
            o.remove(victim);
        }
        "option" => {
            let o = &mut v.streams[0].options;
            if let Some(a) = o.iter_mut().find(|x| x.starts_with("ALPHA=")) {
                *a = if a.as_str() == "ALPHA=0.3" { "ALPHA=0.31".into() } else { "ALPHA=0.3".into() };
            } else {
                o.push("ALPHA=0.3".into());
            }
        }
        "states" => {
            if base.num_states < 2 {
                return None;
            }
            let ns = base.num_states;
            v.num_states = ns - 1;
            for t in v.duration.trees.iter_mut() {
                for p in t.pdfs.iter_mut() {
                    let mut q: Vec<f32> = p[..ns - 1].to_vec();
                    q.extend_from_slice(&p[ns..2 * ns - 1]);
                    *p = q;
                }
            }
            v.duration.pdf_len = 2 * (ns - 1);
            for s in v.streams.iter_mut() {
                s.model.trees.retain(|t| t.state != ns + 1);
            }
        }
        "streams" => {
            if base.streams.len() < 3 {
                return None;
            }
            v.streams.pop();
        }
        "vector-length" | "windows-count" | "msd-flag" => {
            let si = match field {
                "vector-length" => if base.streams.len() > 2 { 2 } else { 0 },
                "windows-count" => base.streams.iter().position(|s| s.windows.len() >= 2)?,
                _ => if base.streams.len() > 2 { 2 } else { 0 },
            };
            let s = &mut v.streams[si];
            let (nw, l, msd) = (s.windows.len(), s.vector_length, s.is_msd);
            let (mut new_nw, mut new_l, mut new_msd) = (nw, l, msd);
            match field {
                "vector-length" => {
                    new_l = if si == 2 { if l >= 3 { l - 2 } else { l + 2 } } else if l >= 3 { l - 1 } else { l + 1 };
                }
                "windows-count" => new_nw = nw - 1,
                _ => new_msd = !msd,
            }
            for t in s.model.trees.iter_mut() {
                for p in t.pdfs.iter_mut() {
                    *p = reshape_pdf(p, nw, l, new_nw, new_l, msd, new_msd);
                }
            }
            s.model.pdf_len = 2 * new_nw * new_l + new_msd as usize;
            s.windows.truncate(new_nw);
            s.vector_length = new_l;
            s.is_msd = new_msd;
            if let Some(g) = s.gv.as_mut() {
                for t in g.trees.iter_mut() {
                    for p in t.pdfs.iter_mut() {
                        *p = reshape_pdf(p, 1, l, 1, new_l, false, false);
                    }
                }
                g.pdf_len = 2 * new_l;
            }
        }
        "gv-flag" => {
            let si = pick % 2;
            let s = &mut v.streams[si];
            if s.use_gv && pick % 3 == 1 {
                // the flag alone: the GV data and its positions stay in the file
                s.use_gv = false;
            } else if s.use_gv {
                s.use_gv = false;
                s.gv = None;
            } else {
                s.use_gv = true;
                s.gv = Some(trivial_gv(s.vector_length));
            }
        }
        _ => return None,
    }
    Some(v)
}

fn load_spec(s: &VoiceSpec) -> Result<Arc<Voice>, Failure> {
    let tmp = TempVoice(write_temp(&s.to_bytes(), "c19"));
    match load_htsvoice_file(&tmp.0) {
        Ok(v) => Ok(Arc::new(v)),
        Err(e) => Err(Failure::new("load-valid-voice", format!("well-formed generated voice rejected: {}", e))),
    }
}

#[derive(Debug, Clone, Serialize)]
pub struct MismatchCase {
    pub base: VoiceSpec,
    pub field: String,
    pub pick: usize,
    pub position: usize,
    pub nvoices: usize,
}

pub struct MetadataMismatch;

impl Prop for MetadataMismatch {
    type Case = MismatchCase;
    fn name(&self) -> String {
        "metadata-mismatch".into()
    }
    fn rule(&self) -> String {
        format!("2..3 generated voices equal except for ONE metadata field of one of them (field in {:?}; 'none' = identical metadata, different trees/PDFs), the odd one at a generated position: VoiceSet::new / Engine::load must return Err for a differing field and Ok for none; the empty list is rejected. Non-trivial: a differing field", FIELDS)
    }
    fn tape_len(&self, _: Tier) -> usize {
        12000
    }
    fn cases(&self, tier: Tier) -> u32 {
        tier.pick(6_000, 100_000)
    }
    fn decode(&self, t: &mut Tape, _: Tier) -> MismatchCase {
        let field = FIELDS[t.below(FIELDS.len())].to_string();
        let pick = t.below(6);
        let nvoices = t.urange(2, 3);
        let position = t.below(nvoices);
        let base = gen_voice(t, GenOpts { max_depth: 2, ..GenOpts::default() });
        MismatchCase { base, field, pick, position, nvoices }
    }
    fn check(&self, c: &MismatchCase) -> Result<Report, Failure> {
        let Some(odd) = vary_field(&c.base, &c.field, c.pick) else {
            return Ok(Report::rejected("field-not-variable-on-this-voice"));
        };
        let base_v = load_spec(&c.base)?;
        let odd_v = load_spec(&odd)?;
        let voices: Vec<Arc<Voice>> = (0..c.nvoices).map(|i| if i == c.position { odd_v.clone() } else { base_v.clone() }).collect();
        let r = VoiceSet::new(voices);
        let differs = c.field != "none";
        match (&r, differs) {
            (Ok(_), true) => fail!("mismatch-accepted", "voices differing in {} (odd voice at position {} of {}) were combined without an error", c.field, c.position, c.nvoices),
            (Err(e), false) => fail!("identical-rejected", "voices with identical metadata were rejected: {}", e),
            _ => {}
        }
        // voice OBJECTS can also be edited through their public fields: one metadata field of the
        // loaded base voice changed in memory (every field in turn over the cases), the odd object at
        // the generated position - still "voices whose metadata differ"
        {
            // in two thirds of the cases the voice family carries one or two FURTHER streams (copies
            // of its last stream under new names - the format puts no bound on NUM_STREAMS), and the
            // edited field may belong to one of them
            let extra = (c.pick + c.position) % 3;
            let mut wide = (*base_v).clone();
            for j in 0..extra {
                let last = wide.stream_models[wide.stream_models.len() - 1].clone();
                wide.stream_models.push(last);
                wide.metadata.num_streams += 1;
                wide.metadata.stream_type.push(format!("AUX{}", j));
            }
            let base_v = Arc::new(wide);
            ensure!(VoiceSet::new(vec![base_v.clone(); c.nvoices.max(1)]).is_ok(), "identical-rejected", "{} identical voice objects with {} streams were rejected", c.nvoices.max(1), base_v.stream_models.len());
            let mut m = (*base_v).clone();
            let ns = m.stream_models.len();
            let (k, si) = (c.pick + 6 * c.position + 18 * (c.base.num_states % 3), (c.pick + 2 * c.position + c.base.num_states + c.nvoices) % ns);
            let what = match k % 13 {
                0 => { m.metadata.num_streams += 1; "num_streams" }
                1 => { m.metadata.num_states += 1; "num_states" }
                2 => { m.metadata.sampling_frequency += 1; "sampling_frequency" }
                3 => { m.metadata.frame_period += 1; "frame_period" }
                4 => { m.metadata.stream_type[si].push('X'); "stream_type" }
                5 => { m.metadata.fullcontext_format.push('X'); "fullcontext_format" }
                6 => { m.metadata.fullcontext_version.push('1'); "fullcontext_version" }
                7 => { m.metadata.hts_voice_version.push('1'); "hts_voice_version" }
                8 => { m.stream_models[si].metadata.vector_length += 1; "vector_length" }
                9 => { m.stream_models[si].metadata.num_windows += 1; "num_windows" }
                10 => { m.stream_models[si].metadata.is_msd ^= true; "is_msd" }
                11 => { m.stream_models[si].metadata.use_gv ^= true; "use_gv" }
                _ => { m.stream_models[si].metadata.option.push("X=1".into()); "option" }
            };
            let edited = Arc::new(m);
            let list: Vec<Arc<Voice>> = (0..c.nvoices).map(|i| if i == c.position { edited.clone() } else { base_v.clone() }).collect();
            ensure!(VoiceSet::new(list).is_err(), "mismatch-accepted", "a voice object whose {} (stream {} of {} where per-stream) was changed in memory (position {} of {}) was combined with the unchanged voice without an error", what, si, ns, c.position, c.nvoices);
        }
        // through Engine::load as well (files)
        // half of the cases: both files have the same file name, in different directories
        let same_name = c.pick % 2 == 1;
        let (t1, t2) = if same_name {
            (TempVoice(crate::voice::write_temp_same_name(&c.base.to_bytes(), "c19a")), TempVoice(crate::voice::write_temp_same_name(&odd.to_bytes(), "c19b")))
        } else {
            (TempVoice(write_temp(&c.base.to_bytes(), "c19a")), TempVoice(write_temp(&odd.to_bytes(), "c19b")))
        };
        let paths: Vec<_> = (0..c.nvoices).map(|i| if i == c.position { t2.0.clone() } else { t1.0.clone() }).collect();
        let e = Engine::load(&paths);
        ensure!(e.is_err() == differs, "engine-load-mismatch", "Engine::load returned {} for voices differing in {}", if e.is_ok() { "Ok" } else { "Err" }, c.field);
        // the empty list
        ensure!(VoiceSet::new(vec![]).is_err(), "empty-accepted", "VoiceSet::new(empty) succeeded");
        let none: [&std::path::Path; 0] = [];
        ensure!(Engine::load(&none).is_err(), "empty-accepted", "Engine::load(empty) succeeded");
        let mut rep = Report::new();
        rep.nontrivial = differs;
        rep.class(format!("field:{}", c.field));
        rep.class_if(same_name, "same-file-name-in-different-directories");
        Ok(rep)
    }
}

#[derive(Debug, Clone, Serialize)]
pub enum Slot {
    Duration,
    Parameter(usize),
    Gv(usize),
}

#[derive(Debug, Clone, Serialize)]
pub struct Update {
    pub slot: Slot,
    pub kind: String,
    /// NaN / inf are not representable in JSON: encoded by `kind`, built in `weights()`
    pub values: Vec<f64>,
}

impl Update {
    fn weights(&self) -> Vec<f64> {
        let mut w = self.values.clone();
        match self.kind.as_str() {
            "nan" => w[0] = f64::NAN,
            "inf" => {
                w[0] = f64::INFINITY;
                if w.len() > 1 {
                    w[1] = f64::NEG_INFINITY;
                }
            }
            "inf-single" => w[0] = f64::INFINITY,
            _ => {}
        }
        w
    }
    fn valid(&self) -> bool {
        self.kind == "valid"
    }
}

#[derive(Debug, Clone, Serialize)]
pub struct HistoryCase {
    pub voices: Vec<VoiceSpec>,
    pub labels: Vec<String>,
    pub updates: Vec<Update>,
}

pub struct WeightHistory;

impl Prop for WeightHistory {
    type Case = HistoryCase;
    fn name(&self) -> String {
        "weight-history".into()
    }
    fn rule(&self) -> String {
        "engine of 1..3 generated voices (base + variants); history of 1..12 operations: weight updates on duration / parameter[i] / gv[i] slots - each valid (dyadic, exact sum 1) or invalid (wrong length (shorter, longer, empty; also the weights currently in force with entries appended or the last one dropped) | sum off by 1e-6..0.5 | NaN | +-inf) - or a reload (the engine's voice set replaced by one of 1..3 voices followed by Condition::load_model, which must reset every slot to the equal weights of the new set); after every update the result (Ok/Err) and all weight getters are compared with the reference model; finally the waveform is compared with a fresh engine given only the accepted vectors. Non-trivial: a rejected update after an accepted one on the same slot".into()
    }
    fn tape_len(&self, _: Tier) -> usize {
        16000
    }
    fn cases(&self, tier: Tier) -> u32 {
        tier.pick(8_000, 120_000)
    }
    fn decode(&self, t: &mut Tape, _: Tier) -> HistoryCase {
        let n = t.urange(1, 3);
        let base = gen_voice(t, GenOpts { max_depth: 2, ..GenOpts::default() });
        let mut voices = vec![base.clone()];
        for _ in 1..n {
            voices.push(variant_voice(t, &base));
        }
        let nstreams = base.streams.len();
        let nl = t.urange(1, 4);
        let (labels, _) = gen_label_lines(t, nl, false);
        let nu = t.urange(1, 12);
        let updates = (0..nu)
            .map(|_| {
                let slot = match t.below(3) {
                    0 => Slot::Duration,
                    1 => Slot::Parameter(t.below(nstreams)),
                    _ => Slot::Gv(t.below(nstreams)),
                };
                let kind = ["valid", "valid", "valid", "wrong-length", "sum-off", "nan", "inf", "inf-single", "reload", "extends-current", "valid", "truncates-current"][t.below(12)];
                if kind == "reload" {
                    // replace the voice set by one of another size and re-run Condition::load_model
                    let m = t.urange(1, 3);
                    return Update { slot: Slot::Duration, kind: kind.to_string(), values: vec![m as f64] };
                }
                // NB: `n` below is the voice count at decode time; after a reload the check
                // classifies every update by the voice count then in force
                let values = match kind {
                    "wrong-length" => {
                        let m = *t.pick(&[n + 1, n.saturating_sub(1), 0, n + 3]);
                        if m == 0 { vec![] } else { gen_weights(t, m) }
                    }
                    // the weights in force on that slot at that moment, with entries appended /
                    // the last one dropped (built in the check, which knows the history)
                    "extends-current" => (0..t.urange(1, 2)).map(|_| *t.pick(&[0.0, 0.5, 0.25, 1.0])).collect(),
                    "truncates-current" => vec![],
                    "sum-off" => {
                        let mut w = gen_weights(t, n);
                        let off = t.log_uniform(1e-6, 0.5) * if t.chance(0.5) { -1.0 } else { 1.0 };
                        w[0] += off;
                        w
                    }
                    _ => gen_weights(t, n),
                };
                Update { slot, kind: kind.to_string(), values }
            })
            .collect();
        HistoryCase { voices, labels, updates }
    }
    fn check(&self, c: &HistoryCase) -> Result<Report, Failure> {
        let mut vs = Vec::new();
        for s in &c.voices {
            vs.push(load_spec(s)?);
        }
        let n = vs.len();
        let nstreams = c.voices[0].streams.len();
        let mut engine = engine_from_voices(vs.clone())?;
        let avg = vec![1.0 / n as f64; n];
        let mut m_dur = avg.clone();
        let mut m_par = vec![avg.clone(); nstreams];
        let mut m_gv = vec![avg.clone(); nstreams];
        let mut accepted: Vec<&Update> = Vec::new();
        let mut reloads: Vec<(usize, usize)> = Vec::new();
        let mut rejected_after_accept = false;
        let mut touched = std::collections::HashSet::new();
        let check_getters = |e: &Engine, d: &Vec<f64>, p: &Vec<Vec<f64>>, g: &Vec<Vec<f64>>, step: &str| -> Result<(), Failure> {
            let iw = e.condition.get_interporation_weight();
            let eq = |a: &[f64], b: &[f64]| a.len() == b.len() && a.iter().zip(b).all(|(x, y)| x.to_bits() == y.to_bits());
            ensure!(eq(iw.get_duration(), d), "weights-getter", "{}: duration weights {:?}, last accepted {:?}", step, &iw.get_duration()[..], d);
            for i in 0..p.len() {
                ensure!(eq(iw.get_parameter(i), &p[i]), "weights-getter", "{}: parameter weights of stream {} are {:?}, last accepted {:?}", step, i, &iw.get_parameter(i)[..], p[i]);
                ensure!(eq(iw.get_gv(i), &g[i]), "weights-getter", "{}: GV weights of stream {} are {:?}, last accepted {:?}", step, i, &iw.get_gv(i)[..], g[i]);
            }
            Ok(())
        };
        check_getters(&engine, &m_dur, &m_par, &m_gv, "fresh engine")?;
        let mut n = n;
        let mut vs = vs;
        for (k, u) in c.updates.iter().enumerate() {
            if u.kind == "reload" {
                let m = (u.values[0] as usize).clamp(1, 3);
                // cycle through the case's voices to build a set of m voices
                let base: Vec<_> = vs.clone();
                let all: Vec<_> = {
                    let mut v = Vec::new();
                    for s in &c.voices {
                        v.push(load_spec(s)?);
                    }
                    v
                };
                let _ = base;
                let list: Vec<_> = (0..m).map(|i| all[i % all.len()].clone()).collect();
                let set = jbonsai::model::VoiceSet::new(list.clone()).map_err(|e| Failure::new("voiceset", e.to_string()))?;
                engine.voices = set;
                if let Err(e) = engine.condition.load_model(&engine.voices) {
                    fail!("load-model", "Condition::load_model failed on a valid voice set: {}", e);
                }
                n = m;
                vs = list;
                let avg = vec![1.0 / n as f64; n];
                m_dur = avg.clone();
                m_par = vec![avg.clone(); nstreams];
                m_gv = vec![avg.clone(); nstreams];
                accepted.clear();
                reloads.push((k, m));
                touched.clear();
                check_getters(&engine, &m_dur, &m_par, &m_gv, &format!("after update #{} (reload with {} voices: weights must be the defaults of the new set)", k, m))?;
                continue;
            }
            let mut w = u.weights();
            if u.kind == "extends-current" || u.kind == "truncates-current" {
                let cur = match u.slot {
                    Slot::Duration => m_dur.clone(),
                    Slot::Parameter(i) => m_par[i].clone(),
                    Slot::Gv(i) => m_gv[i].clone(),
                };
                w = if u.kind == "extends-current" { cur.into_iter().chain(w).collect() } else { cur[..cur.len() - 1].to_vec() };
            }
            // classify against the voice count now in force
            let valid_now = u.valid() && w.len() == n;
            let iw = engine.condition.get_interporation_weight_mut();
            let r = match u.slot {
                Slot::Duration => iw.set_duration(&w),
                Slot::Parameter(i) => iw.set_parameter(i, &w),
                Slot::Gv(i) => iw.set_gv(i, &w),
            };
            let key = format!("{:?}", u.slot);
            if u.valid() && !valid_now {
                // a vector that was valid for the old voice count is a wrong-length vector now
                ensure!(r.is_err(), "invalid-weights-accepted", "update #{} {:?}: {} weights accepted by an engine of {} voices", k, u.slot, w.len(), n);
                if touched.contains(&key) {
                    rejected_after_accept = true;
                }
            } else if u.valid() {
                ensure!(r.is_ok(), "valid-weights-rejected", "update #{} {:?} {:?} (valid) was rejected: {:?}", k, u.slot, w, r.err());
                match u.slot {
                    Slot::Duration => m_dur = w.clone(),
                    Slot::Parameter(i) => m_par[i] = w.clone(),
                    Slot::Gv(i) => m_gv[i] = w.clone(),
                }
                accepted.push(u);
                touched.insert(key);
            } else if u.kind == "wrong-length" && w.len() == n && (w.iter().sum::<f64>() - 1.0).abs() <= f64::EPSILON {
                // after a reload a "wrong-length" vector can have exactly the right length: it is valid
                ensure!(r.is_ok(), "valid-weights-rejected", "update #{} {:?} {:?} has the right length for {} voices but was rejected", k, u.slot, w, n);
                match u.slot {
                    Slot::Duration => m_dur = w.clone(),
                    Slot::Parameter(i) => m_par[i] = w.clone(),
                    Slot::Gv(i) => m_gv[i] = w.clone(),
                }
                accepted.push(u);
                touched.insert(key);
            } else {
                ensure!(r.is_err(), "invalid-weights-accepted", "update #{} {:?} with {} weights {:?} was accepted", k, u.slot, u.kind, w);
                if touched.contains(&key) {
                    rejected_after_accept = true;
                }
            }
            check_getters(&engine, &m_dur, &m_par, &m_gv, &format!("after update #{} ({:?}, {})", k, u.slot, u.kind))?;
        }
        // effective weights in synthesis = last accepted
        let mut fresh = engine_from_voices(vs.clone())?;
        for u in &accepted {
            let iw = fresh.condition.get_interporation_weight_mut();
            let w = u.weights();
            let r = match u.slot {
                Slot::Duration => iw.set_duration(&w),
                Slot::Parameter(i) => iw.set_parameter(i, &w),
                Slot::Gv(i) => iw.set_gv(i, &w),
            };
            ensure!(r.is_ok(), "valid-weights-rejected", "accepted update rejected on a fresh engine");
        }
        let frames = |e: &Engine| e.generator(c.labels.as_slice()).map(|g| crate::engine_util::trajectories(&g).lf0.len() * e.condition.get_fperiod());
        match (frames(&engine), frames(&fresh)) {
            (Ok(a), Ok(b)) => {
                ensure!(a == b, "weights-effective", "engine with rejected updates produces {} samples, a fresh engine with only the accepted ones {}", a, b);
                if a <= 300_000 {
                    let wa = engine.synthesize(c.labels.as_slice()).map_err(|e| Failure::new("synthesize-error", e.to_string()))?;
                    let wb = fresh.synthesize(c.labels.as_slice()).map_err(|e| Failure::new("synthesize-error", e.to_string()))?;
                    if let Some(i) = bits_equal(&wa, &wb) {
                        fail!("weights-effective", "after rejected updates the waveform differs at sample {} from a fresh engine given only the accepted weights", i);
                    }
                }
            }
            (Err(e), _) | (_, Err(e)) => fail!("generator", "{}", e),
        }
        let mut rep = Report::new();
        rep.nontrivial = rejected_after_accept;
        rep.class(format!("voices:{}", n));
        rep.class_if(!reloads.is_empty(), "reloaded-voice-set");
        for u in &c.updates {
            rep.class(format!("update:{}", u.kind));
        }
        rep.classes.sort();
        rep.classes.dedup();
        Ok(rep)
    }
}
