//! C09 Phoneme alignment is honoured.

use serde::Serialize;

use jbonsai::duration::DurationEstimator;
use jbonsai::label::Labels;
use jbonsai::model::{MeanVari, Models};
use jbonsai::Engine;

use crate::bundled::bundled_engine;
use crate::corpus::{corpus, parse_lines};
use crate::engine_util::trajectories;
use crate::runner::{DynProp, Failure, Prop, Report, Tier};
use crate::tape::Tape;
use crate::util::close_rel;
use crate::voice::{gen_voice, write_temp, GenOpts, TempVoice, VoiceSpec};
use crate::{ensure, fail};

use super::c08::round_candidates;
use super::{no_custom, no_extra, PropertyDef};

pub fn def() -> PropertyDef {
    PropertyDef {
        id: "C09",
        level: "exploration",
        props: |_| {
            vec![
                Box::new(AlignLaw) as Box<dyn DynProp>,
                Box::new(LabelTimes) as Box<dyn DynProp>,
                Box::new(EngineAlign) as Box<dyn DynProp>,
            ]
        },
        extra: no_extra,
        replay_custom: no_custom,
        assumptions: &[
            "oracle = the law of the property: cumulative frames after a label with known end = round(end) if that leaves more than one frame per state of its group, else previous + group size; trailing group = max(round(mean),1) per state",
            "distribution inside a group ('according to the duration model') is compared with a reference implementation of the HTS duration-fitting rule only when no rounding/arg-min tie (margin 1e-9) makes the result ambiguous",
            "times are finite, non-negative (or negative = unknown) and below 10 minutes",
        ],
    }
}

/// Reference of the HTS duration fitting. Returns (durations, unambiguous).
pub fn fit_reference(params: &[(f64, f64)], frame_length: f64) -> (Vec<usize>, bool) {
    let n = params.len();
    let mut unamb = true;
    let (tlo, thi) = round_candidates(frame_length, 1e-9);
    if tlo != thi {
        unamb = false;
    }
    let target = frame_length.round().max(1.0) as usize;
    if target <= n {
        return (vec![1; n], unamb);
    }
    let sm: f64 = params.iter().map(|p| p.0).sum();
    let sv: f64 = params.iter().map(|p| p.1).sum();
    let rho = (target as f64 - sm) / sv;
    let mut d: Vec<usize> = params
        .iter()
        .map(|(m, v)| {
            let x = m + rho * v;
            let (lo, hi) = round_candidates(x, 1e-7 * (1.0 + x.abs()));
            if lo != hi {
                unamb = false;
            }
            x.round().max(1.0) as usize
        })
        .collect();
    let mut sum: usize = d.iter().sum();
    let cost = |dd: usize, p: &(f64, f64)| (rho - (dd as f64 - p.0) / p.1).abs();
    let mut guard = 0usize;
    while sum != target {
        guard += 1;
        if guard > 10_000_000 {
            return (d, false);
        }
        let up = target > sum;
        let mut best: Option<(usize, f64)> = None;
        let mut second = f64::INFINITY;
        for i in 0..n {
            if !up && d[i] <= 1 {
                continue;
            }
            let c = cost(if up { d[i] + 1 } else { d[i] - 1 }, &params[i]);
            match best {
                None => best = Some((i, c)),
                Some((_, bc)) if c < bc => {
                    second = bc;
                    best = Some((i, c));
                }
                Some(_) => {
                    if c < second {
                        second = c;
                    }
                }
            }
        }
        let Some((i, bc)) = best else { return (d, false) };
        if !(second - bc > 1e-9 * (1.0 + bc.abs())) {
            unamb = false;
        }
        if up {
            d[i] += 1;
            sum += 1;
        } else {
            d[i] -= 1;
            sum -= 1;
        }
    }
    (d, unamb)
}

/// Check durations against the alignment law. `times` are (start,end) in frames, negative = unknown.
pub fn check_alignment_law(params: &[(f64, f64)], nstate: usize, times: &[(f64, f64)], d: &[usize], rep: &mut Report) -> Result<(), Failure> {
    let nlabels = times.len();
    ensure!(d.len() == nlabels * nstate, "align-len", "{} durations for {} labels x {} states (times {:?})", d.len(), nlabels, nstate, times);
    ensure!(d.iter().all(|x| *x >= 1), "align-floor", "a state got 0 frames: {:?}", d);
    let mut cum = 0usize; // actual frames so far
    let mut group_start = 0usize; // first state of the current group
    for (i, (_, end)) in times.iter().enumerate() {
        let group_end = (i + 1) * nstate;
        if *end >= 0.0 {
            let size = group_end - group_start;
            let got: usize = d[group_start..group_end].iter().sum();
            // the frames of a group are round(end - frames so far); the subtraction of an integer is
            // exact, so only ends within rounding noise of a half frame (ends stay below 1e7 frames,
            // ulp 2e-9) are ambiguous
            let (lo, hi) = round_candidates(*end, 1e-8);
            let expect = |r: f64| -> usize {
                if r - cum as f64 > size as f64 {
                    r as usize - cum
                } else {
                    size
                }
            };
            let (e1, e2) = (expect(lo), expect(hi));
            ensure!(
                got == e1 || got == e2,
                "align-cumulative",
                "label {} (end {} frames): group of {} states got {} frames after {} earlier ones; expected {} (cumulative round(end)={} or one frame per state)",
                i, end, size, got, cum, e1, lo
            );
            if got == size {
                ensure!(d[group_start..group_end].iter().all(|x| *x == 1), "align-floor", "infeasible group must be all ones: {:?}", &d[group_start..group_end]);
                rep.class("group:infeasible-or-tight");
            } else {
                rep.class("group:feasible");
                // distribution inside the group
                let (want, unamb) = fit_reference(&params[group_start..group_end], end - cum as f64);
                if unamb && lo == hi {
                    ensure!(
                        d[group_start..group_end] == want[..],
                        "align-distribution",
                        "label {}: group durations {:?} differ from the duration-model fit {:?} (target {} frames)",
                        i, &d[group_start..group_end], want, got
                    );
                    rep.class("distribution:checked");
                } else {
                    rep.class("distribution:tie-skipped");
                }
            }
            if size > nstate {
                rep.class("group:multi-label");
            }
            cum += got;
            group_start = group_end;
        }
    }
    // trailing group
    if group_start < d.len() {
        rep.class("group:trailing");
        for (k, dd) in d[group_start..].iter().enumerate() {
            let m = params[group_start + k].0;
            let (lo, hi) = round_candidates(m, 1e-9);
            ensure!(
                *dd as f64 == lo.max(1.0) || *dd as f64 == hi.max(1.0),
                "trailing-group",
                "trailing state {} (mean {}) got {} frames, expected max(round(mean),1)",
                group_start + k, m, dd
            );
        }
    }
    Ok(())
}

#[derive(Debug, Clone, Serialize)]
pub struct Case {
    pub nstate: usize,
    pub params: Vec<(f64, f64)>,
    pub times: Vec<(f64, f64)>,
    /// speed requests made on the same estimator object before the alignment request (history only)
    pub earlier_speeds: Vec<f64>,
}

/// End times in frames for `n` labels: known/unknown subsets, positive / zero / negative steps,
/// fractional frames and exact halves.
fn gen_frame_times(t: &mut Tape, n: usize, typical: f64, limit: f64) -> Vec<(f64, f64)> {
    let p_known = *t.pick(&[0.7, 1.0, 0.3, 0.0]);
    let mut cur = 0.0f64;
    let mut out = Vec::with_capacity(n);
    for _ in 0..n {
        let step = match t.weighted(&[12, 2, 2, 2, 1]) {
            0 => t.uniform(0.0, 2.0 * typical),
            1 => 0.0,
            2 => -t.uniform(0.0, typical),
            3 => t.uniform(0.0, 20.0 * typical),
            _ => t.uniform(0.0, 2.0e5),
        };
        let start = cur;
        cur = (cur + step).clamp(0.0, limit);
        let mut end = match t.weighted(&[6, 2, 2, 1]) {
            0 => cur,
            1 => cur.floor() + 0.5,
            2 => cur.round(),
            // just beside a half frame (1e-8..1e-3 of a frame): rounds like any other number
            _ => {
                let d = t.log_uniform(1e-8, 1e-3);
                cur.floor() + 0.5 + if t.chance(0.5) { d } else { -d }
            }
        };
        if end > limit {
            end = limit;
        }
        let known = t.chance(p_known);
        out.push((if t.chance(0.7) { start } else { -1.0 }, if known { end } else { -1.0 }));
    }
    out
}

pub struct AlignLaw;

impl Prop for AlignLaw {
    type Case = Case;
    fn name(&self) -> String {
        "align-law".into()
    }
    fn rule(&self) -> String {
        "DurationEstimator::create_with_alignment on generated duration Gaussians (1..7 states/label, 1..30 labels) and generated frame times: each label's end known or unknown (p in {0,.3,.7,1}), steps positive/zero/negative/large, fractional, exact .5 frames and ends 1e-8..1e-3 of a frame beside .5; oracle: cumulative-frames law + one-frame floor + trailing fallback + reference fit when unambiguous. Non-trivial: both known and unknown ends present, or a trailing group".into()
    }
    fn tape_len(&self, _: Tier) -> usize {
        700
    }
    fn cases(&self, tier: Tier) -> u32 {
        tier.pick(200_000, 3_000_000)
    }
    fn decode(&self, t: &mut Tape, _: Tier) -> Case {
        let nstate = t.urange(1, 7);
        let nlabels = match t.weighted(&[3, 2]) {
            0 => t.urange(1, 6),
            _ => t.urange(1, 30),
        };
        let params: Vec<(f64, f64)> = (0..nlabels * nstate)
            .map(|_| (t.log_uniform(0.2, 40.0), t.log_uniform(1e-3, 400.0)))
            .collect();
        let typical = nstate as f64 * t.log_uniform(0.3, 12.0);
        let times = gen_frame_times(t, nlabels, typical, 5.0e6);
        let earlier_speeds = if t.chance(0.25) { (0..t.urange(1, 2)).map(|_| t.log_uniform(0.2, 5.0)).collect() } else { vec![] };
        Case { nstate, params, times, earlier_speeds }
    }
    fn check(&self, c: &Case) -> Result<Report, Failure> {
        let est = DurationEstimator::new(c.params.iter().map(|(m, v)| MeanVari(*m, *v)).collect(), c.nstate);
        for s in &c.earlier_speeds {
            let _ = est.create(*s);
        }
        let d = est.create_with_alignment(&c.times);
        let mut rep = Report::new();
        check_alignment_law(&c.params, c.nstate, &c.times, &d, &mut rep)?;
        let known = c.times.iter().filter(|t| t.1 >= 0.0).count();
        rep.nontrivial = (known > 0 && known < c.times.len()) || c.times.last().map(|t| t.1 < 0.0).unwrap_or(false);
        rep.class_if(known == 0, "no-time-at-all");
        rep.classes.sort();
        rep.classes.dedup();
        Ok(rep)
    }
}

#[derive(Debug, Clone, Serialize)]
pub struct TimeSpec {
    /// times in 100 ns units as written in the label line; None = token pair absent
    pub start: Option<f64>,
    pub end: Option<f64>,
}

#[derive(Debug, Clone, Serialize)]
pub struct TimesCase {
    pub rate: usize,
    pub fperiod: usize,
    pub labels: Vec<String>,
    pub times: Vec<Option<(f64, f64)>>,
}

fn fmt_time(x: f64) -> String {
    if x == x.trunc() && x.abs() < 1e15 {
        format!("{}", x as i64)
    } else {
        format!("{}", x)
    }
}

pub fn timed_lines(labels: &[String], times: &[Option<(f64, f64)>]) -> Vec<String> {
    labels
        .iter()
        .zip(times)
        .map(|(l, t)| match t {
            Some((s, e)) => format!("{} {} {}", fmt_time(*s), fmt_time(*e), l),
            None => l.clone(),
        })
        .collect()
}

/// Oracle for the (start,end) frame times after inheritance; negative = unknown.
pub fn expected_times(rate: usize, fperiod: usize, times: &[Option<(f64, f64)>]) -> Vec<(f64, f64)> {
    let k = rate as f64 / (fperiod as f64 * 1e7);
    let raw: Vec<(f64, f64)> = times
        .iter()
        .map(|t| match t {
            Some((s, e)) => (s * k, e * k),
            None => (-1.0, -1.0),
        })
        .collect();
    let n = raw.len();
    let mut out = raw.clone();
    for i in 0..n {
        // end inherited from the next label's (own) start
        if raw[i].1 < 0.0 && i + 1 < n && raw[i + 1].0 >= 0.0 {
            out[i].1 = raw[i + 1].0;
        }
        // start inherited from the previous label's (own or inherited) end
        if raw[i].0 < 0.0 && i > 0 && out[i - 1].1 >= 0.0 && raw[i - 1].1 >= 0.0 {
            out[i].0 = raw[i - 1].1;
        }
        if out[i].0 < 0.0 {
            out[i].0 = -1.0;
        }
        if out[i].1 < 0.0 {
            out[i].1 = -1.0;
        }
    }
    out
}

/// 100 ns times per label: absent, both, start only (end = -1), end only (start = -1).
pub fn gen_text_times(t: &mut Tape, n: usize, frame_100ns: f64, typical_frames: f64, limit_100ns: f64) -> Vec<Option<(f64, f64)>> {
    let p_timed = *t.pick(&[0.8, 1.0, 0.4, 0.0]);
    let mut cur = 0.0f64;
    (0..n)
        .map(|_| {
            let step = match t.weighted(&[6, 1, 1]) {
                0 => t.uniform(0.0, 2.0 * typical_frames),
                1 => 0.0,
                _ => -t.uniform(0.0, typical_frames),
            } * frame_100ns;
            let start = cur;
            cur = (cur + step).clamp(0.0, limit_100ns);
            let end = match t.weighted(&[4, 4, 2, 1]) {
                0 => cur.round(),
                1 => ((cur / frame_100ns).floor() + 0.5) * frame_100ns,
                2 => (cur / frame_100ns).round() * frame_100ns,
                // a fractional stamp just beside a half frame (1e-7..1e-3 of a frame)
                _ => {
                    let d = t.log_uniform(1e-7, 1e-3);
                    ((cur / frame_100ns).floor() + 0.5 + if t.chance(0.5) { d } else { -d }) * frame_100ns
                }
            }
            .clamp(0.0, limit_100ns);
            if !t.chance(p_timed) {
                return None;
            }
            Some(match t.weighted(&[6, 1, 1]) {
                0 => (start.round(), end),
                1 => (start.round(), -1.0),
                _ => (-1.0, end),
            })
        })
        .collect()
}

pub struct LabelTimes;

impl Prop for LabelTimes {
    type Case = TimesCase;
    fn name(&self) -> String {
        "label-times".into()
    }
    fn rule(&self) -> String {
        "Labels::load_from_strings(rate, fperiod, lines).times() for generated rates 8k..96k / frame periods 1..480 and lines with/without '<start> <end>' in 100 ns units (absent, both, start only, end only; -1 = unknown): frames == t*rate/(fperiod*1e7) (rel 1e-12) with start/end inheritance from the neighbouring label. Non-trivial: a mix of timed and untimed labels".into()
    }
    fn tape_len(&self, _: Tier) -> usize {
        200
    }
    fn cases(&self, tier: Tier) -> u32 {
        tier.pick(100_000, 1_000_000)
    }
    fn decode(&self, t: &mut Tape, _: Tier) -> TimesCase {
        let rate = *t.pick(&[48000usize, 8000, 16000, 22050, 44100, 96000]);
        let fperiod = *t.pick(&[240usize, 80, 1, 7, 120, 480]);
        let n = t.urange(1, 12);
        let c = corpus();
        let s = t.below(c.lines.len() - n);
        let labels = c.lines[s..s + n].to_vec();
        let frame_100ns = fperiod as f64 * 1e7 / rate as f64;
        let times = gen_text_times(t, n, frame_100ns, 25.0, 5.9e9);
        TimesCase { rate, fperiod, labels, times }
    }
    fn check(&self, c: &TimesCase) -> Result<Report, Failure> {
        let lines = timed_lines(&c.labels, &c.times);
        let l = match Labels::load_from_strings(c.rate, c.fperiod, &lines) {
            Ok(l) => l,
            Err(e) => fail!("label-load", "well-formed timed labels rejected: {}", e),
        };
        let got = l.times();
        let want = expected_times(c.rate, c.fperiod, &c.times);
        ensure!(got.len() == want.len() && l.labels().len() == want.len(), "times-len", "{} times for {} lines", got.len(), want.len());
        for (i, (g, w)) in got.iter().zip(&want).enumerate() {
            let ok = |a: f64, b: f64| if b < 0.0 { a < 0.0 } else { close_rel(a, b, 1e-12) };
            ensure!(ok(g.1, w.1), "times-end", "label {}: end {} frames, expected {} (times {:?})", i, g.1, w.1, c.times);
            ensure!(ok(g.0, w.0), "times-start", "label {}: start {} frames, expected {} (times {:?})", i, g.0, w.0, c.times);
        }
        let timed = c.times.iter().filter(|t| t.is_some()).count();
        let mut rep = Report::new();
        rep.nontrivial = timed > 0 && timed < c.times.len();
        rep.class_if(timed == 0, "untimed");
        rep.class_if(timed == c.times.len(), "all-timed");
        Ok(rep)
    }
}

#[derive(Debug, Clone, Serialize)]
pub struct EngineCase {
    pub voice: Option<VoiceSpec>,
    pub rate_override: Option<usize>,
    pub fperiod_override: Option<usize>,
    pub labels: Vec<String>,
    pub times: Vec<Option<(f64, f64)>>,
    /// speaking rate set on the engine: with alignment on it has no say over annotated labels, and
    /// labels that fall back to their model durations are not rescaled either
    #[serde(default = "one")]
    pub speed: f64,
}

fn one() -> f64 {
    1.0
}

pub struct EngineAlign;

impl Prop for EngineAlign {
    type Case = EngineCase;
    fn name(&self) -> String {
        "engine-align".into()
    }
    fn rule(&self) -> String {
        "Engine with alignment flag on (generated small voice 85%, bundled voice 15%), optional sampling-rate / frame-period override, 1..8 timed/untimed label lines; frames of the generator (and waveform length / fperiod) obey the alignment law with times converted by the engine's *current* rate and frame period and Gaussians from the public Models::duration(). Non-trivial: mix of known and unknown ends, or an override".into()
    }
    fn tape_len(&self, _: Tier) -> usize {
        9000
    }
    fn cases(&self, tier: Tier) -> u32 {
        tier.pick(1500, 40_000)
    }
    fn decode(&self, t: &mut Tape, _: Tier) -> EngineCase {
        let n = t.urange(1, 8);
        let c = corpus();
        let s = t.below(c.lines.len() - n);
        let labels = c.lines[s..s + n].to_vec();
        let bundled = t.chance(0.15);
        let voice = if bundled { None } else { Some(gen_voice(t, GenOpts::default())) };
        let (rate0, fp0) = match &voice {
            Some(v) => (v.sampling_frequency, v.frame_period),
            None => (48000, 240),
        };
        let rate_override = if t.chance(0.25) { Some(*t.pick(&[8000usize, 16000, 44100, 96000])) } else { None };
        let fperiod_override = if t.chance(0.25) { Some(*t.pick(&[80usize, 1, 40, 240, 480])) } else { None };
        let rate = rate_override.unwrap_or(rate0);
        let fp = fperiod_override.unwrap_or(fp0);
        let frame_100ns = fp as f64 * 1e7 / rate as f64;
        let nstate = voice.as_ref().map(|v| v.num_states).unwrap_or(5) as f64;
        let typical = nstate * t.log_uniform(0.5, 6.0);
        let times = gen_text_times(t, n, frame_100ns, typical, 5.9e9);
        let speed = if t.chance(0.3) { t.log_uniform(0.4, 3.0) } else { 1.0 };
        EngineCase { voice, rate_override, fperiod_override, labels, times, speed }
    }
    fn check(&self, c: &EngineCase) -> Result<Report, Failure> {
        let (_tmp, mut engine) = match &c.voice {
            Some(v) => {
                let tmp = TempVoice(write_temp(&v.to_bytes(), "c09"));
                let e = match Engine::load(&[&tmp.0]) {
                    Ok(e) => e,
                    Err(e) => fail!("load-valid-voice", "generated voice rejected: {}", e),
                };
                (Some(tmp), e)
            }
            None => match bundled_engine() {
                Ok(e) => (None, e.clone()),
                Err(e) => fail!("bundled-load", "{}", e),
            },
        };
        engine.condition.set_phoneme_alignment_flag(true);
        engine.condition.set_speed(c.speed);
        if let Some(r) = c.rate_override {
            engine.condition.set_sampling_frequency(r);
        }
        if let Some(f) = c.fperiod_override {
            engine.condition.set_fperiod(f);
        }
        let rate = engine.condition.get_sampling_frequency();
        let fp = engine.condition.get_fperiod();
        let lines = timed_lines(&c.labels, &c.times);
        let labels = match parse_lines(&c.labels) {
            Ok(l) => l,
            Err(e) => fail!("label-parse", "{}", e),
        };
        let models = Models::new(&labels, &engine.voices, engine.condition.get_interporation_weight());
        let params: Vec<(f64, f64)> = models.duration().iter().map(|MeanVari(m, v)| (*m, *v)).collect();
        let nstate = models.nstate();
        let times = expected_times(rate, fp, &c.times);
        // total frames implied by the law cannot be computed without the per-group actual counts;
        // obtain per-state durations from the hook trajectories is not possible either, so the
        // law is evaluated on the public estimator with the engine's own Gaussians and times, and
        // the engine must produce exactly that many frames.
        let est = DurationEstimator::new(params.iter().map(|(m, v)| MeanVari(*m, *v)).collect(), nstate);
        let d = est.create_with_alignment(&times);
        let mut rep = Report::new();
        check_alignment_law(&params, nstate, &times, &d, &mut rep)?;
        let expect_frames: usize = d.iter().sum();
        if expect_frames > 6000 {
            return Ok(Report::rejected("too-long"));
        }
        // every third case: the very same lines were converted just before, on this thread, under
        // another frame rate (the times are in 100 ns units; what they mean in frames depends on the
        // rate in force at THIS request)
        if c.labels.len() % 3 == 1 {
            let mut other = engine.clone();
            other.condition.set_fperiod(fp * 2 + 1);
            other.condition.set_sampling_frequency(if rate == 16000 { 22050 } else { 16000 });
            let _ = other.generator(lines.as_slice());
            let _ = other.generator(lines.clone());
            rep.class("same-lines-converted-before-under-another-rate");
        }
        let g = match engine.generator(lines.as_slice()) {
            Ok(g) => g,
            Err(e) => fail!("generator", "generator failed on well-formed timed labels: {}", e),
        };
        let frames = trajectories(&g).lf0.len();
        // the engine parses the times itself: allow the one-frame ambiguity of .5 ties only
        let tie = times.iter().any(|t| t.1 >= 0.0 && { let (a, b) = round_candidates(t.1, 1e-8f64.max(t.1.abs() * 4e-15)); a != b });
        ensure!(
            frames == expect_frames || tie,
            "engine-align-frames",
            "engine produced {} frames, the alignment law with rate {} / frame period {} gives {} (times {:?})",
            frames, rate, fp, expect_frames, times
        );
        // the same request as a fixed-size array and as an owned vector (other ToLabels impls)
        {
            fn arr<const N: usize>(e: &Engine, l: &[String]) -> Option<usize> {
                let a: [&str; N] = std::array::from_fn(|i| l[i].as_str());
                e.generator(&a).ok().map(|g| trajectories(&g).lf0.len())
            }
            let via_array = match lines.len() {
                1 => arr::<1>(&engine, &lines),
                2 => arr::<2>(&engine, &lines),
                3 => arr::<3>(&engine, &lines),
                4 => arr::<4>(&engine, &lines),
                5 => arr::<5>(&engine, &lines),
                6 => arr::<6>(&engine, &lines),
                7 => arr::<7>(&engine, &lines),
                8 => arr::<8>(&engine, &lines),
                _ => None,
            };
            if let Some(f) = via_array {
                ensure!(f == frames, "engine-align-frames", "the same time-stamped lines as a fixed-size array give {} frames, as a slice {} (rate {}, frame period {})", f, frames, rate, fp);
            }
            let via_vec = engine.generator(lines.clone()).ok().map(|g| trajectories(&g).lf0.len());
            ensure!(via_vec == Some(frames), "engine-align-frames", "the same time-stamped lines as Vec<String> give {:?} frames, as a slice {}", via_vec, frames);
        }
        if c.times.iter().all(|t| t.is_none()) {
            // no annotation at all: the same utterance as already parsed labels is the same request
            // (every label falls back to its model durations instead of vanishing)
            let g2 = match engine.generator(labels.clone()) {
                Ok(g) => g,
                Err(e) => fail!("generator", "generator failed on parsed labels: {}", e),
            };
            let f2 = trajectories(&g2).lf0.len();
            rep.class("no-annotation:parsed-labels-too");
            ensure!(f2 == expect_frames, "engine-align-frames", "parsed labels without any time, alignment on: engine produced {} frames, the model durations give {}", f2, expect_frames);
        }
        if frames <= 300 {
            let w = g.generate_all();
            ensure!(w.len() == frames * fp, "engine-length", "waveform {} samples != {} frames x {}", w.len(), frames, fp);
        }
        let known = times.iter().filter(|t| t.1 >= 0.0).count();
        rep.nontrivial = (known > 0 && known < times.len()) || c.rate_override.is_some() || c.fperiod_override.is_some();
        rep.class(if c.voice.is_some() { "voice:generated" } else { "voice:bundled" });
        rep.class_if(c.rate_override.is_some(), "rate-override");
        rep.class_if(c.fperiod_override.is_some(), "fperiod-override");
        rep.class_if(c.speed != 1.0, "speed-set");
        rep.classes.sort();
        rep.classes.dedup();
        Ok(rep)
    }
}
