//! C16 Volume is a pure gain in decibels.

use serde::Serialize;

use crate::engine_case::{build_engine, gen_engine_case, EngineCase};
use crate::engine_util::trajectories;
use crate::runner::{DynProp, Failure, Prop, Report, Tier};
use crate::tape::Tape;
use crate::util::catch;
use crate::voice::GenOpts;
use crate::{ensure, fail};

use super::c01::traj_equal;
use super::{no_custom, no_extra, PropertyDef};

pub fn def() -> PropertyDef {
    PropertyDef {
        id: "C16",
        level: "exploration",
        props: |_| vec![Box::new(VolumeGain) as Box<dyn DynProp>],
        extra: no_extra,
        replay_custom: no_custom,
        assumptions: &[
            "metamorphic relation against the same engine at 0 dB: y_v[i] == 10^(v/20) * y_0[i] within 1e-12 relative; parameter trajectories (hook) bitwise unchanged; get_volume() within 1e-12 x max(1,|v|) of v",
            "non-finite samples (runaway filters outside the stable range) must be non-finite in both runs",
        ],
    }
}

#[derive(Debug, Clone, Serialize)]
pub struct Case {
    pub base: EngineCase,
    pub volume_db: f64,
    /// set the volume first, then re-read the voice defaults (Condition::load_model) and re-apply
    /// the rest of the condition: the volume must survive
    pub before_reload: bool,
}

pub struct VolumeGain;

impl Prop for VolumeGain {
    type Case = Case;
    fn name(&self) -> String {
        "volume-gain".into()
    }
    fn rule(&self) -> String {
        "engine/utterance/condition as in C01 (1..10 labels; MLSA and LSP voices), v in [-60,60] dB (uniform, bounds, small values); compared with the same engine at 0 dB. Non-trivial: v != 0 and a non-empty waveform".into()
    }
    fn tape_len(&self, _: Tier) -> usize {
        12000
    }
    fn cases(&self, tier: Tier) -> u32 {
        tier.pick(4_000, 60_000)
    }
    fn decode(&self, t: &mut Tape, _: Tier) -> Case {
        let mut base = gen_engine_case(t, 10, 10, false, GenOpts::default());
        base.cond.volume_db = 0.0;
        let volume_db = match t.weighted(&[1, 6, 2, 1, 1]) {
            0 => 0.0,
            1 => t.uniform(-60.0, 60.0),
            2 => *t.pick(&[-60.0, 60.0, 20.0, -20.0, 6.0, -40.0, 40.0, -6.0]),
            3 => t.uniform(-1e-3, 1e-3),
            // just beside a whole number of dB (1e-10..1e-5 relative): a value like any other
            _ => {
                let n = t.urange(1, 60) as f64 * if t.chance(0.5) { 1.0 } else { -1.0 };
                let d = t.log_uniform(1e-10, 1e-5) * if t.chance(0.5) { 1.0 } else { -1.0 };
                (n * (1.0 + d)).clamp(-60.0, 60.0)
            }
        };
        Case { base, volume_db, before_reload: t.chance(0.2) }
    }
    fn check(&self, c: &Case) -> Result<Report, Failure> {
        let (mut engine, _info) = build_engine(&c.base.voice)?;
        c.base.cond.apply(&mut engine);
        let lines = c.base.labels.as_slice();
        let g0 = match catch(|| engine.generator(lines)) {
            Ok(Ok(g)) => g,
            Ok(Err(e)) => fail!("generator", "{}", e),
            Err(p) => fail!(p.signature(), "generator panicked: {}", p.msg),
        };
        let tr0 = trajectories(&g0);
        if tr0.lf0.len() * engine.condition.get_fperiod() > 1_500_000 {
            return Ok(Report::rejected("too-long"));
        }
        let y0 = g0.generate_all();
        let mut loud = engine.clone();
        loud.condition.set_volume(c.volume_db);
        if c.before_reload {
            // the volume is a setting of the caller, not of the voice: re-reading the voice's
            // defaults (as after swapping the voice set) resets the voice-derived values only
            let vs = loud.voices.clone();
            if let Err(e) = loud.condition.load_model(&vs) {
                fail!("load-model", "Condition::load_model failed on the engine's own voices: {}", e);
            }
            c.base.cond.apply_opts(&mut loud, false);
            // interpolation weights of voice sets are reset by the reload: restore them
            *loud.condition.get_interporation_weight_mut() = engine.condition.get_interporation_weight().clone();
        }
        let got = loud.condition.get_volume();
        // "up to rounding": exp and ln each cost a few ulps (measured worst 2e-14 dB at 60 dB)
        ensure!((got - c.volume_db).abs() <= 1e-12 * c.volume_db.abs().max(1.0), "volume-roundtrip", "get_volume() = {} after set_volume({})", got, c.volume_db);
        let g1 = match catch(|| loud.generator(lines)) {
            Ok(Ok(g)) => g,
            Ok(Err(e)) => fail!("generator", "{}", e),
            Err(p) => fail!(p.signature(), "generator panicked: {}", p.msg),
        };
        let tr1 = trajectories(&g1);
        if let Some(d) = traj_equal(&tr0, &tr1) {
            fail!("volume-changes-parameters", "setting the volume changed the parameter trajectories: {}", d);
        }
        let y1 = g1.generate_all();
        ensure!(y0.len() == y1.len(), "volume-length", "length {} at {} dB vs {} at 0 dB", y1.len(), c.volume_db, y0.len());
        let gain = 10f64.powf(c.volume_db / 20.0);
        let mut rep = Report::new();
        let mut worst = 0.0f64;
        for (i, (a, b)) in y1.iter().zip(&y0).enumerate() {
            let want = gain * b;
            if !want.is_finite() || !b.is_finite() {
                ensure!(!a.is_finite() || !want.is_finite(), "volume-gain", "sample {}: {} at {} dB but the 0 dB sample is {}", i, a, c.volume_db, b);
                continue;
            }
            let err = (a - want).abs();
            let rel = if want == 0.0 { err } else { err / want.abs() };
            worst = worst.max(rel);
            ensure!(
                rel <= 1e-12 || err <= 1e-300,
                "volume-gain",
                "sample {}: {:e} at {} dB, expected 10^(v/20) x {:e} = {:e} (relative error {:e})",
                i, a, c.volume_db, b, want, rel
            );
        }
        rep.metric("max_relative_error", worst);
        // the same through the incremental API with a double-sized buffer whose second half holds
        // live data: the gain applies to the produced frame only ("changes nothing else")
        if c.volume_db != 0.0 && !y1.is_empty() {
            let mut g2 = match catch(|| loud.generator(lines)) {
                Ok(Ok(g)) => g,
                _ => fail!("generator", "generator failed on the second pass"),
            };
            let fp = g2.fperiod();
            let live = 0.123456789f64;
            let mut buf = vec![live; 2 * fp];
            let mut k = 0usize;
            loop {
                let r = g2.generate_step(&mut buf);
                if r == 0 {
                    break;
                }
                ensure!(r == fp && (k + 1) * fp <= y1.len(), "volume-step", "generate_step returned {} at frame {}", r, k);
                for j in 0..fp {
                    let (a, b) = (buf[j], y1[k * fp + j]);
                    ensure!(a.to_bits() == b.to_bits() || (a.is_nan() && b.is_nan()), "volume-step", "frame {} sample {}: incremental {:e} vs one-shot {:e} at {} dB", k, j, a, b, c.volume_db);
                }
                ensure!(buf[fp..].iter().all(|x| *x == live), "volume-beyond-frame", "at {} dB generate_step changed the caller's data beyond the frame it produced (frame {})", c.volume_db, k);
                k += 1;
                if k > 400 {
                    break;
                }
            }
        }
        // and through "some steps, then everything else": the remainder carries the gain too
        if c.volume_db != 0.0 && !y1.is_empty() {
            let mut g3 = match catch(|| loud.generator(lines)) {
                Ok(Ok(g)) => g,
                _ => fail!("generator", "generator failed on the third pass"),
            };
            let fp = g3.fperiod();
            let frames = y1.len() / fp;
            let k = 1 + (c.base.labels.len() * 7) % frames.clamp(1, 60);
            let mut buf = vec![0.0; fp];
            let mut done = 0;
            for _ in 0..k.min(frames) {
                if g3.generate_step(&mut buf) == 0 {
                    break;
                }
                done += 1;
            }
            let rest = g3.generate_all();
            ensure!(rest.len() == y1.len() - done * fp, "volume-step", "after {} steps generate_all returned {} samples of {}", done, rest.len(), y1.len());
            for (j, (a, b)) in rest.iter().zip(&y1[done * fp..]).enumerate() {
                ensure!(a.to_bits() == b.to_bits() || (a.is_nan() && b.is_nan()), "volume-step", "after {} steps, sample {} of the remainder: {:e} vs one-shot {:e} at {} dB", done, j, a, b, c.volume_db);
            }
        }
        rep.nontrivial = c.volume_db != 0.0 && !y0.is_empty();
        rep.class(c.base.voice.class());
        rep.class_if(c.before_reload, "volume-set-before-reloading-the-voice-defaults");
        rep.class_if(y0.iter().any(|x| !x.is_finite()), "runaway-nonfinite");
        Ok(rep)
    }
}
