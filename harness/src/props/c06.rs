//! C06 The mel-cepstral synthesis filter realises the model spectrum.

use std::f64::consts::PI;

use serde::Serialize;

use crate::dsp::{dft_logmag, mc2b, mcep_logmag, measure_pulse, minphase_ir, tail_energy_fraction};
use crate::runner::{DynProp, Failure, Prop, Report, Tier};
use crate::tape::Tape;
use crate::{ensure, fail};

use super::{no_custom, no_extra, PropertyDef};

pub fn def() -> PropertyDef {
    PropertyDef {
        id: "C06",
        level: "exploration",
        props: |_| vec![Box::new(MlsaSpectrum) as Box<dyn DynProp>, Box::new(MlsaAfterHistory) as Box<dyn DynProp>, Box::new(AfterFrames(0)) as Box<dyn DynProp>],
        extra: no_extra,
        replay_custom: no_custom,
        assumptions: &[
            "pulse response measured through the public Vocoder: two frames of floor(rate/20)-2 samples at F0=20 Hz; frame 2 holds exactly one pulse and stationary coefficients",
            "a case is admitted only if the *reference* minimum-phase impulse response (homomorphic, 8192..32768-point FFT) has decayed inside the measured window (tail energy < 1e-10); rejected cases are counted",
            "tolerance 0.01 neper (the property's Pade bound) for spectral shapes within +-2 nepers of the gain; measured worst deviation 3e-4",
        ],
    }
}

#[derive(Debug, Clone, Serialize)]
pub struct Case {
    pub rate: usize,
    pub alpha: f64,
    pub target_shape: f64,
    pub cepstrum: Vec<f64>,
    pub gain_shift: f64,
    /// linear output gain of the vocoder during the measurement (the response is divided by it)
    pub volume: f64,
    /// the vocoder's log-gain flag: it belongs to the LSP family and must not matter here
    pub log_gain_flag: bool,
    /// Some(alpha'): immediately before the measurement another vocoder on the same thread renders
    /// the same cepstrum with another alpha (history between objects)
    #[serde(default)]
    pub decoy_alpha: Option<f64>,
}

pub const RATES: &[usize] = &[16000, 8000, 22050, 44100, 48000, 96000];

/// Max over a frequency grid of |log H - b0| for a mel-cepstrum.
pub fn shape_max(c: &[f64], alpha: f64, grid: usize) -> f64 {
    let b0 = mc2b(c, alpha)[0];
    (0..grid)
        .map(|k| (mcep_logmag(c, alpha, PI * k as f64 / (grid - 1) as f64) - b0).abs())
        .fold(0.0, f64::max)
}

/// Random cepstrum (Gaussian x geometric decay), c0 in [-3,3], higher terms rescaled so that the
/// spectral shape max|log H - b0| equals `target`.
pub fn gen_cepstrum(t: &mut Tape, len: usize, alpha: f64, target: f64) -> Vec<f64> {
    let decay = t.uniform(0.6, 0.97);
    let mut c = vec![0.0; len];
    // the gain term: mostly moderate, sometimes very small or large (the filter is linear, the
    // spectrum law must hold at any level)
    c[0] = if t.chance(0.7) { t.uniform(-3.0, 3.0) } else { t.uniform(-40.0, 8.0) };
    let mut scale = 1.0;
    for ci in c.iter_mut().skip(1) {
        *ci = t.gauss() * scale;
        scale *= decay;
    }
    // sparse cepstra: exact zeros below non-zero higher orders (and an exactly zero gain term)
    match t.weighted(&[12, 2, 1, 1]) {
        0 => {}
        1 => {
            for ci in c.iter_mut().skip(1) {
                if t.chance(0.35) {
                    *ci = 0.0;
                }
            }
        }
        2 => c[0] = 0.0,
        _ => {
            c[0] = 0.0;
            if len > 2 {
                c[1] = 0.0;
            }
        }
    }
    if c[1..].iter().all(|x| *x == 0.0) {
        c[len - 1] = 0.5;
    }
    let cur = shape_max(&c, alpha, 129);
    if cur > 0.0 {
        let s = target / cur;
        for ci in c.iter_mut().skip(1) {
            *ci *= s;
        }
    }
    c
}

pub fn gen_alpha(t: &mut Tape) -> f64 {
    match t.weighted(&[2, 3, 5]) {
        0 => 0.0,
        1 => *t.pick(&[0.42, 0.55, 0.31, 0.6, 0.1]),
        _ => t.uniform(0.0, 0.6),
    }
}

/// Does the reference response decay inside `window` samples?
pub fn reference_decays(logmag: impl Fn(f64) -> f64, window: usize) -> bool {
    let n = (window * 4).next_power_of_two().clamp(8192, 65536);
    let ir = minphase_ir(logmag, n);
    // the homomorphic response wraps around: require the energy in [window, n) to be negligible
    tail_energy_fraction(&ir, window) < 1e-10
}

pub struct MlsaSpectrum;

impl Prop for MlsaSpectrum {
    type Case = Case;
    fn name(&self) -> String {
        "mlsa-spectrum".into()
    }
    fn rule(&self) -> String {
        "vector length 2..41 (both readings of \"orders 2..40\"), alpha in {0} u [0,0.6], rate in {8k,16k,22.05k,44.1k,48k,96k}, cepstrum = Gaussian x geometric decay (a quarter of them sparse: exact zeros below non-zero higher orders, c0 == 0) with c0 in [-3,3] and shape max|log H - b0| scaled to a target in [0.2,2]; DFT log-magnitude of the pulse response (frame 1 and frame 2) on 65/257 frequencies vs sum_m c_m cos(m w~) within 0.01 neper; c0 in [-3,3] (70 %) or [-40,8]; additionally shifting c0 by d in [-35,6] must scale the response by exp(d) to 1e-9 of its peak. Non-trivial: shape >= 0.5 neper and the reference response decays inside the window".into()
    }
    fn tape_len(&self, _: Tier) -> usize {
        8 * 44 + 32
    }
    fn cases(&self, tier: Tier) -> u32 {
        tier.pick(12_000, 150_000)
    }
    fn decode(&self, t: &mut Tape, _: Tier) -> Case {
        let rate = *t.pick(RATES);
        let alpha = gen_alpha(t);
        let len = match t.weighted(&[2, 5, 2]) {
            0 => t.urange(2, 3),
            1 => t.urange(2, 41),
            _ => t.urange(35, 41),
        };
        let target_shape = t.uniform(0.2, 2.0);
        let cepstrum = gen_cepstrum(t, len, alpha, target_shape);
        let gain_shift = if t.chance(0.5) { t.uniform(-6.0, 6.0) } else { t.uniform(-35.0, 6.0) };
        let volume = if t.chance(0.6) { 1.0 } else { t.log_uniform(0.05, 20.0) };
        Case { rate, alpha, target_shape, cepstrum, gain_shift, volume, log_gain_flag: t.chance(0.2), decoy_alpha: if t.chance(0.25) { Some(gen_alpha(t)) } else { None } }
    }
    fn check(&self, c: &Case) -> Result<Report, Failure> {
        let tier_k = if std::env::var("VERIF_TIER").ok().as_deref() == Some("thorough") { 257 } else { 65 };
        if let Some(a) = c.decoy_alpha {
            let _ = measure_pulse(&c.cepstrum, 0, false, c.rate, a, 0.0, 1.0);
            // ... and one that is dropped while its filter is still ringing
            crate::dsp::hot_decoy(&c.cepstrum, 0, false, c.rate, if c.cepstrum.len() % 2 == 0 { a } else { c.alpha }, 0.0);
        }
        let mut m = measure_pulse(&c.cepstrum, 0, c.log_gain_flag, c.rate, c.alpha, 0.0, c.volume);
        for v in m.frame1.iter_mut().chain(m.frame2.iter_mut()) {
            *v /= c.volume;
        }
        let model = |w: f64| mcep_logmag(&c.cepstrum, c.alpha, w);
        if !reference_decays(model, m.window.min(m.frame1.len())) {
            return Ok(Report::rejected("reference-not-decayed"));
        }
        let mut rep = Report::new();
        // a third measurement: a pulse 0..3 samples before the end of a frame, ringing across the
        // frame boundary (frame period and pulse period are functions of the case)
        let bits = c.cepstrum.iter().fold(c.rate as u64, |h, x| h.wrapping_mul(31).wrapping_add(x.to_bits() >> 20));
        let tail: Vec<f64> = crate::dsp::measure_pulse_tail(&c.cepstrum, 0, c.log_gain_flag, c.rate, c.alpha, 0.0, (bits % 16) as usize, ((bits >> 4) % 4) as usize);
        for (name, h) in [("frame1", &m.frame1), ("frame2", &m.frame2), ("frame-tail", &tail)] {
            if let Some(i) = h.iter().position(|x| !x.is_finite()) {
                fail!("mlsa-nonfinite", "{}: non-finite sample at {} of the pulse response", name, i);
            }
            let mut worst = (0.0f64, 0.0f64);
            for k in 0..tier_k {
                let w = PI * k as f64 / (tier_k - 1) as f64;
                let got = dft_logmag(h, w);
                let want = model(w);
                let e = (got - want).abs();
                if e > worst.0 || e.is_nan() {
                    worst = (e, w);
                }
            }
            ensure!(
                worst.0 <= 0.01,
                "mlsa-spectrum",
                "{}: log-magnitude of the pulse response deviates from sum c_m cos(m w~) by {:.4} neper at w={:.3} (alpha {}, order {}, rate {}, c0 {})",
                name, worst.0, worst.1, c.alpha, c.cepstrum.len() - 1, c.rate, c.cepstrum[0]
            );
            rep.metric("max_logmag_error_neper", worst.0);
        }
        // homogeneity: shifting c0 by d scales the whole response by exp(d) (the filter is linear)
        let d = c.gain_shift;
        let mut shifted = c.cepstrum.clone();
        shifted[0] += d;
        let mut m2 = measure_pulse(&shifted, 0, c.log_gain_flag, c.rate, c.alpha, 0.0, c.volume);
        for v in m2.frame1.iter_mut() {
            *v /= c.volume;
        }
        let g = d.exp();
        let peak = m.frame1.iter().fold(0.0f64, |a, x| a.max(x.abs())) * g;
        let mut worst = 0.0f64;
        for (a, b) in m2.frame1.iter().zip(&m.frame1) {
            worst = worst.max((a - g * b).abs() / peak.max(1e-300));
        }
        rep.metric("max_homogeneity_error_rel_peak", worst);
        ensure!(
            worst <= 1e-9,
            "mlsa-gain-scaling",
            "shifting c0 by {} does not scale the pulse response by exp({}): deviation {:e} of the peak (c0 {}, alpha {}, order {})",
            d, d, worst, c.cepstrum[0], c.alpha, c.cepstrum.len() - 1
        );
        rep.nontrivial = c.target_shape >= 0.5;
        rep.class_if(c.cepstrum[0] < -10.0, "very-small-gain");
        rep.class_if(c.volume != 1.0, "non-default-volume");
        rep.class_if(c.log_gain_flag, "log-gain-flag-set-on-a-mel-cepstral-vocoder");
        rep.class_if(c.alpha == 0.0, "alpha=0");
        rep.class_if(c.cepstrum.len() <= 3, "len<=3");
        rep.class_if(c.cepstrum.len() >= 35, "len>=35");
        rep.class(format!("rate:{}", c.rate));
        Ok(rep)
    }
}

#[derive(Debug, Clone, Serialize)]
pub struct HistCase {
    pub rate: usize,
    pub alpha: f64,
    pub cepstrum: Vec<f64>,
    pub mode: String,
    pub history: Vec<Vec<f64>>,
}

/// The response must reflect the current frame's cepstrum whatever frames were rendered before.
pub struct MlsaAfterHistory;

impl Prop for MlsaAfterHistory {
    type Case = HistCase;
    fn name(&self) -> String {
        "mlsa-after-history".into()
    }
    fn rule(&self) -> String {
        "as mlsa-spectrum (rates 8k/16k, orders 2..24), but with frame period 1 and a generated history before the measured stationary cepstrum (none | a cepstrum differing only in a subset of coefficients | slow drift with per-frame steps 1e-9..1e-5); the log-magnitude of the response to the second pulse vs the model spectrum of the CURRENT cepstrum (0.01 neper). Non-trivial: a non-empty history".into()
    }
    fn tape_len(&self, _: Tier) -> usize {
        200
    }
    fn cases(&self, tier: Tier) -> u32 {
        tier.pick(1_000, 20_000)
    }
    fn decode(&self, t: &mut Tape, _: Tier) -> HistCase {
        let rate = *t.pick(&[8000usize, 16000]);
        let alpha = gen_alpha(t);
        let len = t.urange(2, 24);
        let target = t.uniform(0.2, 1.5);
        let mut cepstrum = gen_cepstrum(t, len, alpha, target);
        cepstrum[0] = t.uniform(-3.0, 3.0);
        let (history, mode) = crate::dsp::gen_spectrum_history(t, &cepstrum, rate / 40, false);
        HistCase { rate, alpha, cepstrum, mode, history }
    }
    fn check(&self, c: &HistCase) -> Result<Report, Failure> {
        let k2 = c.rate / 20;
        let window = k2 - 4;
        let quiet = (k2 - c.history.len()).min(window);
        let model = |w: f64| mcep_logmag(&c.cepstrum, c.alpha, w);
        if !reference_decays(model, quiet) {
            return Ok(Report::rejected("reference-not-decayed"));
        }
        let (h, _) = crate::dsp::measure_after_history(&c.history, &c.cepstrum, 0, false, c.rate, c.alpha, 0.0, window);
        if let Some(i) = h.iter().position(|x| !x.is_finite()) {
            fail!("mlsa-nonfinite", "non-finite sample at {} after a history", i);
        }
        let mut rep = Report::new();
        let mut worst = (0.0f64, 0.0f64);
        for k in 0..33 {
            let w = PI * k as f64 / 32.0;
            let e = (dft_logmag(&h, w) - model(w)).abs();
            if e > worst.0 || e.is_nan() {
                worst = (e, w);
            }
        }
        rep.metric("max_logmag_error_neper", worst.0);
        ensure!(
            worst.0 <= 0.01,
            "mlsa-history-dependence",
            "after the history '{}' ({} frames) the pulse response deviates from the CURRENT frame's model spectrum by {:.4} neper at w={:.3} (alpha {}, order {})",
            c.mode, c.history.len(), worst.0, worst.1, c.alpha, c.cepstrum.len() - 1
        );
        rep.nontrivial = !c.history.is_empty();
        rep.class(format!("history:{}", c.mode.split(':').next().unwrap_or("")));
        Ok(rep)
    }
}

/// History with LONG frames: after one or two frames of another spectrum, three frames of the
/// measured spectrum follow on the same vocoder; the response to the pulse of the last one (start
/// and target coefficients both those of the measured spectrum) must be the response of a vocoder
/// that never saw anything else. `family`: 0 mel-cepstral (C06), 1 mel-cepstral with postfilter
/// (C14), 2 LSP (C13).
#[derive(Debug, Clone, Serialize)]
pub struct FramesCase {
    pub rate: usize,
    pub alpha: f64,
    pub beta: f64,
    pub stage: usize,
    pub use_log_gain: bool,
    pub spectrum: Vec<f64>,
    pub prior: Vec<Vec<f64>>,
    pub n_stationary: usize,
}

pub struct AfterFrames(pub usize);

impl Prop for AfterFrames {
    type Case = FramesCase;
    fn name(&self) -> String {
        ["mlsa-after-frames", "postfilter-after-frames", "lsp-after-frames"][self.0].into()
    }
    fn rule(&self) -> String {
        format!(
            "{}: one vocoder renders 1..2 long frames (20 Hz, frame length floor(T0)-2) of another spectrum (mel-cepstral: independent, or differing in a subset of the coefficients; LSP: a neighbouring legal set - frequencies moved by < 1/5 of the minimal gap, another gain), then 2..4 frames of the measured stationary spectrum; the pulse response in the last frame must equal the frame-2 response of a fresh vocoder that only ever saw the measured spectrum (1e-6 of its peak). Cases whose response outlasts half a frame are rejected. Non-trivial: every admitted case",
            ["mel-cepstral vocoder, vector length 2..30, beta 0", "mel-cepstral vocoder with postfilter beta in (0,0.5], vector length 3..30", "LSP vocoder, order 2..16, stage 1..4"][self.0]
        )
    }
    fn tape_len(&self, _: Tier) -> usize {
        8 * 32 * 3 + 64
    }
    fn cases(&self, tier: Tier) -> u32 {
        tier.pick(1_000, 20_000)
    }
    fn decode(&self, t: &mut Tape, _: Tier) -> FramesCase {
        let rate = *t.pick(&[16000usize, 8000, 22050, 48000]);
        let alpha = gen_alpha(t);
        let (stage, use_log_gain, beta) = match self.0 {
            0 => (0, false, 0.0),
            1 => (0, false, t.uniform(0.05, 0.5)),
            _ => (t.urange(1, 4), t.chance(0.5), 0.0),
        };
        let gen = |t: &mut Tape| -> Vec<f64> {
            if stage == 0 {
                let len = t.urange(if beta > 0.0 { 3 } else { 2 }, 30);
                let target = t.uniform(0.2, 1.6) / (1.0 + beta);
                gen_cepstrum(t, len, alpha, target)
            } else {
                let m = t.urange(2, 16);
                let g = t.log_uniform(0.3, 3.0);
                let mut l = vec![if use_log_gain { g.ln() } else { g }];
                l.extend(super::c13::gen_lsp(t, m));
                l
            }
        };
        let spectrum = gen(t);
        let nprior = t.urange(1, 2);
        let prior: Vec<Vec<f64>> = (0..nprior)
            .map(|_| {
                if stage != 0 {
                    // LSP: a NEIGHBOURING legal set (frequencies moved by less than a fifth of the
                    // minimal gap, another gain). Independent sets are not used: the vocoder
                    // interpolates filter coefficients linearly inside the transition frame, which
                    // between two unrelated all-pole filters can pass through unstable ones and
                    // leave an astronomically large filter state behind (observed 1e204)
                    let m = spectrum.len() - 1;
                    let min_gap = std::f64::consts::PI / (4.0 * (m as f64 + 1.0));
                    let mut o = spectrum.clone();
                    for w in o.iter_mut().skip(1) {
                        *w += t.uniform(-0.2, 0.2) * min_gap;
                    }
                    let f = t.uniform(0.7, 1.4);
                    o[0] = if use_log_gain { o[0] + f.ln() } else { o[0] * f };
                    o
                } else if t.chance(0.5) {
                    // another cepstrum of the same length, at a comparable LEVEL: the admission rule
                    // below ("responses die out inside half a frame", judged on the measured
                    // spectrum) says nothing about the tail of an earlier pulse that was e^20 times
                    // louder (a false alarm of this sub-check's first version, see DESIGN.md 7)
                    let o = gen(t);
                    let mut o: Vec<f64> = if o.len() == spectrum.len() { o } else { spectrum.iter().enumerate().map(|(i, v)| v * 0.5 + 0.1 / (1.0 + i as f64)).collect() };
                    o[0] = spectrum[0] + t.uniform(-1.0, 1.0);
                    o
                } else {
                    // differs in a subset of the coefficients only
                    let mut o = spectrum.clone();
                    let k = t.below(o.len());
                    o[k] += t.uniform(0.05, 0.4) * if t.chance(0.5) { 1.0 } else { -1.0 };
                    o
                }
            })
            .collect();
        FramesCase { rate, alpha, beta, stage, use_log_gain, spectrum, prior, n_stationary: t.urange(2, 4) }
    }
    fn check(&self, c: &FramesCase) -> Result<Report, Failure> {
        let fresh = measure_pulse(&c.spectrum, c.stage, c.use_log_gain, c.rate, c.alpha, c.beta, 1.0);
        if fresh.frame1.iter().any(|x| !x.is_finite()) {
            return Ok(Report::rejected("non-finite-response"));
        }
        {
            let r = &fresh.frame1;
            let q = r.len() / 2;
            let tail: f64 = r[q..].iter().map(|x| x * x).sum();
            let total: f64 = r.iter().map(|x| x * x).sum();
            if !(tail <= 1e-18 * total) {
                return Ok(Report::rejected("response-longer-than-half-a-frame"));
            }
        }
        let after = crate::dsp::measure_pulse_after_frames(&c.prior, &c.spectrum, c.n_stationary, c.stage, c.use_log_gain, c.rate, c.alpha, c.beta);
        let n = after.len().min(fresh.frame2.len());
        if n < 64 {
            return Ok(Report::rejected("pulse-too-close-to-the-frame-end"));
        }
        let scale = fresh.frame2[..n].iter().fold(0.0f64, |a, x| a.max(x.abs()));
        let dmax = (0..n).fold(0.0f64, |a, i| a.max((after[i] - fresh.frame2[i]).abs()));
        let mut rep = Report::new();
        rep.metric("max_time_domain_error_rel", dmax / scale);
        ensure!(
            dmax.is_finite() && dmax <= 1e-6 * scale,
            "frame-history-dependence",
            "after {} frame(s) of another spectrum and {} stationary frames the pulse response differs from a fresh vocoder's stationary response by {:e} of its peak (stage {}, alpha {}, beta {}, vector length {})",
            c.prior.len(), c.n_stationary, dmax / scale, c.stage, c.alpha, c.beta, c.spectrum.len()
        );
        rep.nontrivial = true;
        rep.class(format!("prior-frames:{}", c.prior.len()));
        rep.class(format!("stationary-frames:{}", c.n_stationary));
        Ok(rep)
    }
}
