//! C05 Generated trajectories are the maximum-likelihood solution (MLPG).

use serde::Serialize;

use jbonsai::mlpg_adjust::MlpgAdjust;
use jbonsai::model::voice::window::Window;
use jbonsai::model::{MeanVari, ModelStream, StreamParameter, Windows};

use crate::runner::{DynProp, Failure, Prop, Report, Tier};
use crate::tape::Tape;
use crate::voice::{WIN_A3, WIN_A5, WIN_D3, WIN_D5, WIN_STATIC};
use crate::{ensure, fail};

use super::{no_custom, no_extra, PropertyDef};

pub const NODATA: f64 = -1e10;

pub fn def() -> PropertyDef {
    PropertyDef {
        id: "C05",
        level: "exploration",
        props: |_| vec![Box::new(MlpgDense) as Box<dyn DynProp>],
        extra: no_extra,
        replay_custom: no_custom,
        assumptions: &[
            "oracle = dense normal equations W'U^-1W c = W'U^-1 mu built from the definition (dynamic observations whose span leaves the voiced run or the utterance are dropped), solved by Gaussian elimination with partial pivoting; relative tolerance 1e-9 (measured worst 6e-14)",
            "stream without GV; variances in [0.05,3]",
        ],
    }
}

#[derive(Debug, Clone, Serialize)]
pub struct Case {
    pub vector_length: usize,
    pub window_set: String,
    pub windows: Vec<Vec<f64>>,
    pub voicing: String,
    pub threshold: f64,
    pub durations: Vec<usize>,
    /// per state: (means[nwin*vlen], variances[nwin*vlen], msd)
    pub states: Vec<(Vec<f64>, Vec<f64>, f64)>,
    /// requests served by the SAME MlpgAdjust object before the checked one (history that must not
    /// matter): other alignments of the same states, mostly with the same total number of frames
    pub earlier_durations: Vec<Vec<usize>>,
}

pub fn solve_dense(mut a: Vec<Vec<f64>>, mut b: Vec<f64>) -> Option<Vec<f64>> {
    let n = b.len();
    for col in 0..n {
        let mut piv = col;
        for r in col + 1..n {
            if a[r][col].abs() > a[piv][col].abs() {
                piv = r;
            }
        }
        if a[piv][col].abs() < 1e-300 {
            return None;
        }
        a.swap(col, piv);
        b.swap(col, piv);
        for r in col + 1..n {
            let f = a[r][col] / a[col][col];
            if f != 0.0 {
                for c in col..n {
                    let v = a[col][c];
                    a[r][c] -= f * v;
                }
                b[r] -= f * b[col];
            }
        }
    }
    let mut x = vec![0.0; n];
    for r in (0..n).rev() {
        let mut s = b[r];
        for c in r + 1..n {
            s -= a[r][c] * x[c];
        }
        x[r] = s / a[r][r];
    }
    Some(x)
}

/// Reference MLPG for one vector dimension. `frames[t] = (voiced, per-window (mean, var))`.
pub fn mlpg_reference(windows: &[Vec<f64>], frames: &[(bool, Vec<(f64, f64)>)]) -> Vec<f64> {
    let t_len = frames.len();
    // compact index of voiced frames
    let mut cidx = vec![usize::MAX; t_len];
    let mut n = 0;
    for (t, f) in frames.iter().enumerate() {
        if f.0 {
            cidx[t] = n;
            n += 1;
        }
    }
    let mut out = vec![NODATA; t_len];
    if n == 0 {
        return out;
    }
    let mut a = vec![vec![0.0; n]; n];
    let mut b = vec![0.0; n];
    for t in 0..t_len {
        if !frames[t].0 {
            continue;
        }
        for (wi, w) in windows.iter().enumerate() {
            let l = (w.len() / 2) as isize;
            let r = w.len() as isize - l - 1;
            // span must stay inside the utterance and touch only voiced frames (dynamic windows)
            let mut ok = true;
            if wi != 0 {
                for p in -l..=r {
                    let tt = t as isize + p;
                    if tt < 0 || tt >= t_len as isize || !frames[tt as usize].0 {
                        ok = false;
                        break;
                    }
                }
            }
            if !ok {
                continue;
            }
            let (mean, var) = frames[t].1[wi];
            let prec = 1.0 / var;
            // row: sum_p w[p+l] * c[t+p]
            let mut cols: Vec<(usize, f64)> = Vec::new();
            for p in -l..=r {
                let coef = w[(p + l) as usize];
                let tt = t as isize + p;
                if coef == 0.0 {
                    continue;
                }
                if tt < 0 || tt >= t_len as isize || !frames[tt as usize].0 {
                    // only possible for the static window of width 1 (never), or non-zero
                    // coefficients are inside by the span test above
                    continue;
                }
                cols.push((cidx[tt as usize], coef));
            }
            for &(ci, wa) in &cols {
                b[ci] += wa * prec * mean;
                for &(cj, wb) in &cols {
                    a[ci][cj] += wa * prec * wb;
                }
            }
        }
    }
    if let Some(x) = solve_dense(a, b) {
        for t in 0..t_len {
            if frames[t].0 {
                out[t] = x[cidx[t]];
            }
        }
    } else {
        out.iter_mut().for_each(|v| *v = f64::NAN);
    }
    out
}

pub struct MlpgDense;

fn window_sets(t: &mut Tape) -> (String, Vec<Vec<f64>>) {
    match t.weighted(&[4, 6, 10, 4, 4, 2, 3, 2, 1, 1, 2]) {
        // even widths (HTS convention: the extra tap lies on the LEFT of the centre - a 2-tap window
        // covers t-1 and t, a 4-tap window t-2 .. t+1)
        10 => {
            if t.chance(0.5) {
                ("even-width-2".into(), vec![WIN_STATIC.to_vec(), vec![-1.0, 1.0]])
            } else {
                ("even-width-2+4".into(), vec![WIN_STATIC.to_vec(), vec![-1.0, 1.0], vec![0.25, -0.25, -0.25, 0.25]])
            }
        }
        0 => ("static".into(), vec![WIN_STATIC.to_vec()]),
        1 => ("delta".into(), vec![WIN_STATIC.to_vec(), WIN_D3.to_vec()]),
        2 => ("delta+accel".into(), vec![WIN_STATIC.to_vec(), WIN_D3.to_vec(), WIN_A3.to_vec()]),
        3 => ("width5".into(), vec![WIN_STATIC.to_vec(), WIN_D5.to_vec(), WIN_A5.to_vec()]),
        4 => ("mixed3/5".into(), vec![WIN_STATIC.to_vec(), WIN_D3.to_vec(), WIN_A5.to_vec()]),
        5 => ("delta5-only".into(), vec![WIN_STATIC.to_vec(), WIN_D5.to_vec()]),
        // the widest window is not the last one
        6 => ("mixed5/3".into(), vec![WIN_STATIC.to_vec(), WIN_D5.to_vec(), WIN_A3.to_vec()]),
        // declared width larger than the support: the span that decides which observations are
        // dropped is the DECLARED width (exact zeros at the outer positions)
        7 => ("zero-outer-taps-5".into(), vec![WIN_STATIC.to_vec(), vec![0.0, -0.5, 0.0, 0.5, 0.0], WIN_A3.to_vec()]),
        8 => ("one-sided-left".into(), vec![WIN_STATIC.to_vec(), vec![-1.0, 1.0, 0.0]]),
        _ => ("one-sided-right".into(), vec![WIN_STATIC.to_vec(), vec![0.0, -1.0, 1.0], vec![1.0, -2.0, 1.0]]),
    }
}

impl Prop for MlpgDense {
    type Case = Case;
    fn name(&self) -> String {
        "mlpg-dense".into()
    }
    fn rule(&self) -> String {
        "public MlpgAdjust::new(.., ModelStream{gv: None}).create(durations): 1..60 states, durations 1..8, vector length 1..4, means in [-3,3], variances in [0.05,3], window sets {static; +delta; +delta+accel (width 3); width-5; mixed 3/5; mixed 5/3 (widest window not last); windows with exact zeros at their outer positions (declared width 5 with support 3, one-sided differences in 3 taps)}, exact +-0.0 among the means (a third of the cases); tied variances (components sharing the static variance while the dynamic ones differ, or one variance per state) in a third of the cases; in 30 % of the cases the same MlpgAdjust object first serves 1-2 other alignments of the same states (same total, reordered or shifted; or unrelated), voicing {non-MSD all voiced | random | all unvoiced | islands of 1-2 frames | voiced with short gaps}; compared with the dense solve; every third case hands the window set over through its serde implementations (JSON). Non-trivial: >= 1 dynamic window and >= 2 voiced frames".into()
    }
    fn tape_len(&self, _: Tier) -> usize {
        60 * (4 * 3 * 2 * 4 + 3) + 32
    }
    fn cases(&self, tier: Tier) -> u32 {
        tier.pick(120_000, 2_000_000)
    }
    fn decode(&self, t: &mut Tape, _: Tier) -> Case {
        let vector_length = t.urange(1, 4);
        let (window_set, windows) = window_sets(t);
        let nstates = match t.weighted(&[4, 3, 1]) {
            0 => t.urange(1, 6),
            1 => t.urange(1, 20),
            _ => t.urange(1, 60),
        };
        let dur_mode = t.below(3);
        let durations: Vec<usize> = (0..nstates)
            .map(|_| match dur_mode {
                0 => 1,
                1 => t.urange(1, 3),
                _ => t.urange(1, 8),
            })
            .collect();
        let threshold = *t.pick(&[0.5, 0.0, 1.0, 0.3, 0.95]);
        let vmode = t.weighted(&[3, 3, 1, 2, 2]);
        let voicing = ["all-voiced-nonmsd", "random", "all-unvoiced", "islands", "short-gaps"][vmode].to_string();
        let nw = windows.len();
        let mut run = 0usize;
        // exact zeros (+0.0 / -0.0) among the means: flat trajectories are what real models
        // have for the dynamic features of steady states
        let zero_mode = t.weighted(&[6, 2, 1]);
        // 0: independent variances | 1: all components share the static variance of the state, the
        // dynamic ones differ | 2: one variance for everything in the state
        let var_mode = t.weighted(&[6, 2, 1]);
        let states = (0..nstates)
            .map(|i| {
                let means: Vec<f64> = (0..nw * vector_length)
                    .map(|m| {
                        let v = if m < vector_length { t.uniform(-3.0, 3.0) } else { t.uniform(-0.5, 0.5) };
                        let p_zero = match (zero_mode, m < vector_length) {
                            (0, _) => 0.0,
                            (1, true) => 0.1,
                            (1, false) => 0.3,
                            (_, true) => 0.0,
                            (_, false) => 1.0,
                        };
                        if p_zero > 0.0 && t.chance(p_zero) {
                            if t.chance(0.5) { 0.0 } else { -0.0 }
                        } else {
                            v
                        }
                    })
                    .collect();
                // tied variances: real voices share variance vectors between components and states
                // (variance flooring, tied covariances); independent draws never produce equal ones
                let shared_static = t.log_uniform(0.05, 3.0);
                let vars: Vec<f64> = (0..nw * vector_length)
                    .map(|m| {
                        let v = t.log_uniform(0.05, 3.0);
                        match var_mode {
                            1 if m < vector_length => shared_static,
                            2 => shared_static,
                            _ => v,
                        }
                    })
                    .collect();
                let voiced = match vmode {
                    0 => true,
                    1 => t.chance(0.5),
                    2 => false,
                    3 => {
                        // islands: voiced states of duration 1-2 separated by unvoiced ones
                        i % 2 == 1 && t.chance(0.8)
                    }
                    _ => {
                        if run > 0 {
                            run -= 1;
                            true
                        } else if t.chance(0.3) {
                            false
                        } else {
                            run = t.urange(1, 5);
                            true
                        }
                    }
                };
                let msd = if vmode == 0 {
                    f64::MAX
                } else if voiced {
                    // a voiced state is one whose weight exceeds the threshold - by a little, by
                    // a lot, or with the value that marks "always voiced" in non-MSD streams
                    match t.weighted(&[12, 1, 1]) {
                        0 => threshold + (1.0 - threshold) * t.uniform(0.01, 1.0) + 1e-9,
                        1 => 1.0,
                        _ => f64::MAX,
                    }
                } else {
                    threshold * t.unit()
                };
                (means, vars, msd)
            })
            .collect();
        let mut c = Case { vector_length, window_set, windows, voicing, threshold, durations, states, earlier_durations: vec![] };
        if vmode == 3 {
            for (i, d) in c.durations.iter_mut().enumerate() {
                if i % 2 == 1 {
                    *d = 1 + (*d % 2);
                }
            }
        }
        if t.chance(0.3) {
            for _ in 0..t.urange(1, 2) {
                let mut e = c.durations.clone();
                match t.below(3) {
                    0 => {
                        // same multiset of durations in another order: same total
                        for i in (1..e.len()).rev() {
                            let j = t.below(i + 1);
                            e.swap(i, j);
                        }
                    }
                    1 => {
                        // move frames between states: same total
                        for _ in 0..t.urange(1, 4) {
                            let (a, b) = (t.below(e.len()), t.below(e.len()));
                            if e[a] > 1 {
                                e[a] -= 1;
                                e[b] += 1;
                            }
                        }
                    }
                    _ => {
                        for d in e.iter_mut() {
                            *d = t.urange(1, 8);
                        }
                    }
                }
                c.earlier_durations.push(e);
            }
        }
        c
    }
    fn check(&self, c: &Case) -> Result<Report, Failure> {
        let nw = c.windows.len();
        let vl = c.vector_length;
        let windows = Windows::new(c.windows.iter().map(|w| Window::new(w.clone())).collect());
        // every third case the window set reaches the generator the way a cached voice does: through
        // its Serialize / Deserialize implementations (JSON text here) - the same windows by value
        let via_serde = c.durations.len() % 3 == 1;
        let windows: Windows = if via_serde {
            let text = match serde_json::to_string(&windows) {
                Ok(t) => t,
                Err(e) => fail!("window-serde", "a window set cannot be serialized: {}", e),
            };
            match serde_json::from_str(&text) {
                Ok(w) => w,
                Err(e) => fail!("window-serde", "a serialized window set cannot be read back: {} ({})", e, text),
            }
        } else {
            windows
        };
        let stream = StreamParameter::new(
            c.states
                .iter()
                .map(|(m, v, msd)| (m.iter().zip(v).map(|(a, b)| MeanVari(*a, *b)).collect(), *msd))
                .collect(),
        );
        let ms = ModelStream { vector_length: vl, stream, gv: None, windows: &windows };
        let generator = MlpgAdjust::new(1.0, c.threshold, ms);
        for e in &c.earlier_durations {
            let _ = generator.create(e);
        }
        let out = generator.create(&c.durations);
        let t_len: usize = c.durations.iter().sum();
        ensure!(out.len() == t_len, "mlpg-frames", "{} frames generated for durations summing to {}", out.len(), t_len);
        // frame -> state
        let mut frame_state = Vec::with_capacity(t_len);
        for (s, d) in c.durations.iter().enumerate() {
            for _ in 0..*d {
                frame_state.push(s);
            }
        }
        let voiced: Vec<bool> = frame_state.iter().map(|s| c.states[*s].2 > c.threshold).collect();
        let nvoiced = voiced.iter().filter(|v| **v).count();
        let mut worst = 0.0f64;
        for k in 0..vl {
            let frames: Vec<(bool, Vec<(f64, f64)>)> = (0..t_len)
                .map(|t| {
                    let s = frame_state[t];
                    (voiced[t], (0..nw).map(|w| (c.states[s].0[vl * w + k], c.states[s].1[vl * w + k])).collect())
                })
                .collect();
            let want = mlpg_reference(&c.windows, &frames);
            for t in 0..t_len {
                ensure!(out[t].len() == vl, "mlpg-frames", "frame {} has {} values, vector length {}", t, out[t].len(), vl);
                let g = out[t][k];
                if !voiced[t] {
                    ensure!(g == NODATA, "mlpg-nodata", "unvoiced frame {} dim {} carries {} instead of the no-data marker", t, k, g);
                } else {
                    if want[t].is_nan() {
                        fail!("harness-singular", "dense reference system singular");
                    }
                    let err = (g - want[t]).abs() / 1f64.max(want[t].abs());
                    worst = worst.max(err);
                    ensure!(
                        err <= 1e-9,
                        "mlpg-solution",
                        "frame {} dim {}: generated {} but the maximum-likelihood solution is {} (rel err {:e}; windows {}, voicing {})",
                        t, k, g, want[t], err, c.window_set, c.voicing
                    );
                }
            }
        }
        let mut rep = Report::new();
        rep.nontrivial = nw > 1 && nvoiced >= 2;
        rep.class(format!("windows:{}", c.window_set));
        rep.class(format!("voicing:{}", c.voicing));
        rep.class_if(!c.earlier_durations.is_empty(), "after-other-alignments-on-the-same-object");
        rep.class_if(nvoiced == 0, "no-voiced-frame");
        rep.class_if(via_serde, "windows-through-serde");
        rep.class_if(worst > 1e-12, "err>1e-12");
        Ok(rep)
    }
}
