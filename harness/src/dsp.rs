//! DSP references (independent of jbonsai) and pulse-response measurement through the public Vocoder.

use std::f64::consts::PI;

use jbonsai::vocoder::Vocoder;

/// All-pass warped frequency for warping constant alpha.
pub fn warp(w: f64, alpha: f64) -> f64 {
    w + 2.0 * (alpha * w.sin()).atan2(1.0 - alpha * w.cos())
}

/// MLSA filter coefficients b from mel-cepstrum c (own implementation).
pub fn mc2b(c: &[f64], alpha: f64) -> Vec<f64> {
    let mut b = c.to_vec();
    for i in (0..c.len().saturating_sub(1)).rev() {
        b[i] = c[i] - alpha * b[i + 1];
    }
    b
}

/// log|H(w)| = sum_m c_m cos(m w~(w)) for a mel-cepstrum.
pub fn mcep_logmag(c: &[f64], alpha: f64, w: f64) -> f64 {
    let wt = warp(w, alpha);
    c.iter().enumerate().map(|(m, cm)| cm * (m as f64 * wt).cos()).sum()
}

/// LPC polynomial A(z) = 1 + a_1 z^-1 + ... from line spectral frequencies (polynomial
/// multiplication of the LSP factors).
pub fn lsp_to_lpc(w: &[f64]) -> Vec<f64> {
    fn mul(a: &[f64], b: &[f64]) -> Vec<f64> {
        let mut r = vec![0.0; a.len() + b.len() - 1];
        for (i, x) in a.iter().enumerate() {
            for (j, y) in b.iter().enumerate() {
                r[i + j] += x * y;
            }
        }
        r
    }
    let m = w.len();
    let mut p = vec![1.0];
    let mut q = vec![1.0];
    for (i, wi) in w.iter().enumerate() {
        let f = [1.0, -2.0 * wi.cos(), 1.0];
        if i % 2 == 0 {
            p = mul(&p, &f);
        } else {
            q = mul(&q, &f);
        }
    }
    if m % 2 == 0 {
        p = mul(&p, &[1.0, 1.0]);
        q = mul(&q, &[1.0, -1.0]);
    } else {
        q = mul(&q, &[1.0, 0.0, -1.0]);
    }
    // both have degree m+1; A = (P+Q)/2 has degree m (the z^-(m+1) terms cancel)
    let mut a = vec![0.0; m + 1];
    for (i, ai) in a.iter_mut().enumerate() {
        *ai = 0.5 * (p[i] + q[i]);
    }
    a
}

/// ln|A(e^{jw})| for a polynomial in z^-1.
pub fn poly_logmag(a: &[f64], w: f64) -> f64 {
    let (mut re, mut im) = (0.0, 0.0);
    for (k, ak) in a.iter().enumerate() {
        re += ak * (k as f64 * w).cos();
        im -= ak * (k as f64 * w).sin();
    }
    0.5 * (re * re + im * im).ln()
}

/// ln K - s ln|A(e^{j w~})|
pub fn lsp_logmag(gain: f64, a: &[f64], stage: usize, alpha: f64, w: f64) -> f64 {
    gain.ln() - stage as f64 * poly_logmag(a, warp(w, alpha))
}

/// ln|sum_n h[n] e^{-jwn}|
pub fn dft_logmag(h: &[f64], w: f64) -> f64 {
    // Goertzel-free direct evaluation with recurrence for e^{-jwn}
    let (cw, sw) = (w.cos(), w.sin());
    let (mut c, mut s) = (1.0f64, 0.0f64);
    let (mut re, mut im) = (0.0, 0.0);
    for (n, x) in h.iter().enumerate() {
        if n % 256 == 0 {
            c = (w * n as f64).cos();
            s = (w * n as f64).sin();
        }
        re += x * c;
        im -= x * s;
        let nc = c * cw - s * sw;
        s = s * cw + c * sw;
        c = nc;
    }
    0.5 * (re * re + im * im).ln()
}

/// In-place radix-2 FFT (len power of two). inverse=true divides by n.
pub fn fft(re: &mut [f64], im: &mut [f64], inverse: bool) {
    let n = re.len();
    assert!(n.is_power_of_two() && im.len() == n);
    let mut j = 0;
    for i in 1..n {
        let mut bit = n >> 1;
        while j & bit != 0 {
            j ^= bit;
            bit >>= 1;
        }
        j ^= bit;
        if i < j {
            re.swap(i, j);
            im.swap(i, j);
        }
    }
    let mut len = 2;
    while len <= n {
        let ang = 2.0 * PI / len as f64 * if inverse { 1.0 } else { -1.0 };
        for start in (0..n).step_by(len) {
            for k in 0..len / 2 {
                let (wr, wi) = ((ang * k as f64).cos(), (ang * k as f64).sin());
                let (a, b) = (start + k, start + k + len / 2);
                let tr = re[b] * wr - im[b] * wi;
                let ti = re[b] * wi + im[b] * wr;
                re[b] = re[a] - tr;
                im[b] = im[a] - ti;
                re[a] += tr;
                im[a] += ti;
            }
        }
        len <<= 1;
    }
    if inverse {
        for i in 0..n {
            re[i] /= n as f64;
            im[i] /= n as f64;
        }
    }
}

/// Minimum-phase impulse response whose log-magnitude spectrum is `logmag(w)` (w in [0,pi]),
/// computed on an n-point FFT grid (homomorphic method).
pub fn minphase_ir(logmag: impl Fn(f64) -> f64, n: usize) -> Vec<f64> {
    let mut re: Vec<f64> = (0..n)
        .map(|k| {
            let w = 2.0 * PI * k as f64 / n as f64;
            let w = if w > PI { 2.0 * PI - w } else { w };
            logmag(w)
        })
        .collect();
    let mut im = vec![0.0; n];
    fft(&mut re, &mut im, true); // real cepstrum
    // fold to minimum phase
    let mut cr = vec![0.0; n];
    cr[0] = re[0];
    for k in 1..n / 2 {
        cr[k] = 2.0 * re[k];
    }
    cr[n / 2] = re[n / 2];
    let mut ci = vec![0.0; n];
    fft(&mut cr, &mut ci, false);
    // exp of complex spectrum
    for k in 0..n {
        let m = cr[k].exp();
        let (c, s) = (ci[k].cos(), ci[k].sin());
        cr[k] = m * c;
        ci[k] = m * s;
    }
    fft(&mut cr, &mut ci, true);
    cr
}

/// Fraction of the energy of `ir` that lies at or beyond sample `from`.
pub fn tail_energy_fraction(ir: &[f64], from: usize) -> f64 {
    let total: f64 = ir.iter().map(|x| x * x).sum();
    if total == 0.0 || !total.is_finite() {
        return 1.0;
    }
    let tail: f64 = ir.iter().skip(from).map(|x| x * x).sum();
    tail / total
}

pub struct PulseMeasurement {
    /// response to a unit pulse measured in frame 1 (starts at the pulse)
    pub frame1: Vec<f64>,
    /// response to a unit pulse measured in frame 2 (stationary, already postfiltered coefficients)
    pub frame2: Vec<f64>,
    pub window: usize,
    /// whole second frame (normalised), index of its pulse, frame length
    pub frame2_full: Vec<f64>,
    pub pulse2: usize,
    pub fperiod: usize,
}

/// Pulse period (samples) at the minimum F0 of 20 Hz: T0 = rate / exp(log F0) as the property
/// defines it (exp(ln 20) is 20.000000000000004 in f64, which decides on which sample a pulse falls).
pub fn period20(rate: usize) -> f64 {
    rate as f64 / 20f64.ln().exp()
}

/// Two frames of length floor(rate/20) - 2 at F0 = 20 Hz with the same stationary spectrum.
/// Frame 1 gets its pulse at sample 0; frame 2 exactly one pulse at a computed index.
#[allow(clippy::too_many_arguments)]
pub fn measure_pulse(spectrum: &[f64], stage: usize, use_log_gain: bool, rate: usize, alpha: f64, beta: f64, volume: f64) -> PulseMeasurement {
    let p = period20(rate);
    let fperiod = p.floor() as usize - 2;
    let mut v = Vocoder::new(spectrum.len(), 0, stage, use_log_gain, rate, alpha, beta, volume, fperiod);
    let lf0 = 20f64.ln();
    let mut f1 = vec![0.0; fperiod];
    let mut f2 = vec![0.0; fperiod];
    v.synthesize(lf0, spectrum, &[], &mut f1);
    v.synthesize(lf0, spectrum, &[], &mut f2);
    // counter after frame 1 is `fperiod`; pulse at the first j with fperiod + j + 1 >= p
    let j = (p - fperiod as f64 - 1.0).ceil().max(0.0) as usize;
    let amp = p.sqrt();
    PulseMeasurement {
        frame1: f1.iter().map(|x| x / amp).collect(),
        frame2: f2[j..].iter().map(|x| x / amp).collect(),
        window: fperiod - j,
        frame2_full: f2.iter().map(|x| x / amp).collect(),
        pulse2: j,
        fperiod,
    }
}

/// Response to a pulse that falls `k` samples before the END of a frame and rings across the frame
/// boundary into the next call: two frames of the same stationary spectrum, F0 slightly above 20 Hz
/// so that the period is `floor(rate/20) - s - 0.5` samples (not a multiple of anything), frame
/// period = index of the second pulse + 1 + k. Returns the normalised response from the second pulse
/// up to the third one (about one period, most of it rendered by the second call).
#[allow(clippy::too_many_arguments)]
pub fn measure_pulse_tail(spectrum: &[f64], stage: usize, use_log_gain: bool, rate: usize, alpha: f64, beta: f64, s: usize, k: usize) -> Vec<f64> {
    // strictly below the period of the 20 Hz limit (a longer period would be clamped to it)
    let pt = period20(rate).floor() - 1.0 - s as f64 + 0.5;
    let lf0 = (rate as f64 / pt).ln();
    // the period as the vocoder computes it
    let p = rate as f64 / lf0.exp();
    // pitch counter: starts at p, +1 per sample, fires (and -= p) when >= p
    let pulses_upto = |n_total: usize| -> Vec<usize> {
        let mut counter = p;
        let mut v = Vec::new();
        for n in 0..n_total {
            counter += 1.0;
            if counter >= p {
                counter -= p;
                v.push(n);
            }
        }
        v
    };
    let first = pulses_upto(3 * pt as usize);
    let j2 = first[1];
    let fperiod = j2 + 1 + k;
    let mut v = Vocoder::new(spectrum.len(), 0, stage, use_log_gain, rate, alpha, beta, 1.0, fperiod);
    let mut out = vec![0.0; 2 * fperiod];
    let (a, b) = out.split_at_mut(fperiod);
    v.synthesize(lf0, spectrum, &[], a);
    v.synthesize(lf0, spectrum, &[], b);
    let j3 = first.get(2).copied().unwrap_or(2 * fperiod).min(2 * fperiod);
    let amp = p.sqrt();
    out[j2..j3].iter().map(|x| x / amp).collect()
}

/// A vocoder of the same shape that is used for one noisy frame and dropped while its filter is
/// still ringing: whatever the library keeps across vocoder objects (pools, thread-locals) now holds
/// the state of a filter that was NOT at rest.
pub fn hot_decoy(spectrum: &[f64], stage: usize, use_log_gain: bool, rate: usize, alpha: f64, beta: f64) {
    let fperiod = 96;
    let mut v = Vocoder::new(spectrum.len(), 0, stage, use_log_gain, rate, alpha, beta, 1.0, fperiod);
    let mut buf = vec![0.0; fperiod];
    v.synthesize(-1e10, spectrum, &[], &mut buf);
    v.synthesize(200f64.ln(), spectrum, &[], &mut buf);
    drop(v);
}

/// Unit-pulse response of the LAST of `n_stationary` (>= 2) frames of `spectrum` that follow the
/// frames `prior` (other spectra) on one vocoder, everything voiced at 20 Hz with the long frame of
/// `measure_pulse`. The pulse positions are obtained by simulating the documented pitch counter.
/// Returns the normalised response from the last frame's pulse to the end of that frame.
#[allow(clippy::too_many_arguments)]
pub fn measure_pulse_after_frames(prior: &[Vec<f64>], spectrum: &[f64], n_stationary: usize, stage: usize, use_log_gain: bool, rate: usize, alpha: f64, beta: f64) -> Vec<f64> {
    let p = period20(rate);
    let fperiod = p.floor() as usize - 2;
    let mut v = Vocoder::new(spectrum.len(), 0, stage, use_log_gain, rate, alpha, beta, 1.0, fperiod);
    let lf0 = 20f64.ln();
    let nframes = prior.len() + n_stationary;
    let mut last = vec![0.0; fperiod];
    for f in 0..nframes {
        let sp: &[f64] = if f < prior.len() { &prior[f] } else { spectrum };
        v.synthesize(lf0, sp, &[], &mut last);
    }
    // pitch counter: starts at p, +1 per sample, fires (and -= p) when >= p
    let mut counter = p;
    let mut pulse_in_last = None;
    for n in 0..nframes * fperiod {
        counter += 1.0;
        if counter >= p {
            counter -= p;
            if n >= (nframes - 1) * fperiod && pulse_in_last.is_none() {
                pulse_in_last = Some(n - (nframes - 1) * fperiod);
            }
        }
    }
    let j = pulse_in_last.unwrap_or(0);
    let amp = p.sqrt();
    last[j..].iter().map(|x| x / amp).collect()
}

/// Unit-pulse response measured on the FIRST pulse after `n_unvoiced` unvoiced frames of the same
/// stationary spectrum. The same sequence is rendered twice, with the voiced frame at 20 Hz and at
/// 40 Hz: the noise tails of the unvoiced frames are identical in both runs (same noise source,
/// same coefficient trajectory) and cancel in the difference, which leaves
/// (sqrt(T0_20) - sqrt(T0_40)) x the response to the pulse on the voiced frame's first sample, up to
/// the second 40-Hz pulse. Returns the normalised response (rate/40 - 2 samples).
#[allow(clippy::too_many_arguments)]
pub fn measure_pulse_after_unvoiced(spectrum: &[f64], stage: usize, use_log_gain: bool, rate: usize, alpha: f64, beta: f64, n_unvoiced: usize) -> Vec<f64> {
    let p20 = period20(rate);
    let fperiod = p20.floor() as usize - 2;
    let run = |lf0: f64| -> Vec<f64> {
        let mut v = Vocoder::new(spectrum.len(), 0, stage, use_log_gain, rate, alpha, beta, 1.0, fperiod);
        let mut buf = vec![0.0; fperiod];
        for _ in 0..n_unvoiced {
            v.synthesize(-1e10, spectrum, &[], &mut buf);
        }
        v.synthesize(lf0, spectrum, &[], &mut buf);
        buf
    };
    let a = run(20f64.ln());
    let b = run(40f64.ln());
    let p40 = rate as f64 / 40f64.ln().exp();
    let n = (p40.floor() as usize).saturating_sub(2).min(fperiod);
    let d = p20.sqrt() - p40.sqrt();
    (0..n).map(|i| (a[i] - b[i]) / d).collect()
}

#[cfg(test)]
mod tests {
    use super::*;
    #[test]
    fn lsp_poly_roots() {
        // A(z) built from LSPs: P and Q have their roots at the given frequencies
        let w = [0.3, 0.7, 1.2, 2.0, 2.6];
        let a = lsp_to_lpc(&w);
        assert_eq!(a.len(), 6);
        assert!((a[0] - 1.0).abs() < 1e-12);
    }
    #[test]
    fn minphase_of_first_order() {
        // H(z) = 1/(1-0.5 z^-1): log|H| = -0.5*ln(1.25 - cos w)
        let ir = minphase_ir(|w| -0.5 * (1.25 - w.cos()).ln(), 1024);
        for n in 0..10 {
            assert!((ir[n] - 0.5f64.powi(n as i32)).abs() < 1e-9, "{} {}", n, ir[n]);
        }
    }
}

/// Response to the SECOND pulse of a run with frame period 1 (one spectrum per sample): the first
/// `history.len()` frames carry other spectra, all later frames carry `fin`. The second pulse falls
/// on sample `k2` (the period at 20 Hz), long after the history, when the coefficients have been
/// stationary for `k2 - history.len()` samples. Returns (response from the pulse on, normalised by
/// the pulse height; k2).
#[allow(clippy::too_many_arguments)]
pub fn measure_after_history(history: &[Vec<f64>], fin: &[f64], stage: usize, use_log_gain: bool, rate: usize, alpha: f64, beta: f64, window: usize) -> (Vec<f64>, usize) {
    let p = period20(rate);
    let mut k2 = 1usize;
    while ((k2 + 1) as f64) < p {
        k2 += 1;
    }
    let mut v = Vocoder::new(fin.len(), 0, stage, use_log_gain, rate, alpha, beta, 1.0, 1);
    let lf0 = 20f64.ln();
    let total = k2 + window;
    let mut out = vec![0.0; total];
    for n in 0..total {
        let sp: &[f64] = if n < history.len() { &history[n] } else { fin };
        v.synthesize(lf0, sp, &[], &mut out[n..n + 1]);
    }
    let amp = p.sqrt();
    (out[k2..].iter().map(|x| x / amp).collect(), k2)
}

/// Frames that precede the measured, stationary spectrum `fin`:
/// none | a constant spectrum that differs from `fin` only in a subset of components ("partial
/// key") | a slow linear drift towards `fin` with a tiny per-frame step.
pub fn gen_spectrum_history(t: &mut crate::tape::Tape, fin: &[f64], max_len: usize, lsp: bool) -> (Vec<Vec<f64>>, String) {
    let l = fin.len();
    match t.weighted(&[1, 4, 4]) {
        0 => (vec![], "none".into()),
        1 => {
            let n = t.urange(1, max_len.min(40));
            let subset = t.below(5);
            let mut alt = fin.to_vec();
            let amt = |t: &mut crate::tape::Tape, i: usize, x: f64| -> f64 {
                if lsp {
                    if i == 0 { x * t.uniform(0.8, 1.25) + if x == 0.0 { 0.1 } else { 0.0 } } else { x + t.uniform(-0.004, 0.004) }
                } else {
                    x + t.uniform(-0.3, 0.3)
                }
            };
            let name = match subset {
                0 => {
                    alt[0] = amt(t, 0, alt[0]);
                    "only-order-0"
                }
                1 => {
                    if l > 1 {
                        alt[1] = amt(t, 1, alt[1]);
                    }
                    "only-order-1"
                }
                2 => {
                    for i in 2..l {
                        alt[i] = amt(t, i, alt[i]);
                    }
                    "only-orders>=2"
                }
                3 => {
                    alt[l - 1] = amt(t, l - 1, alt[l - 1]);
                    "only-last"
                }
                _ => {
                    for i in 0..l {
                        alt[i] = amt(t, i, alt[i]);
                    }
                    "all"
                }
            };
            (vec![alt; n], format!("partial-key:{}", name))
        }
        _ => {
            let n = if t.chance(0.6) { max_len } else { t.urange(1, max_len) };
            let delta = *t.pick(&[9e-7, 3e-7, 1e-9, 1e-5, 5e-7]);
            let signs: Vec<f64> = (0..l).map(|_| if t.chance(0.5) { 1.0 } else { -1.0 }).collect();
            let only_gain = t.chance(0.3);
            let h = (0..n)
                .map(|k| {
                    fin.iter()
                        .enumerate()
                        .map(|(i, x)| if only_gain && i != 0 { *x } else { x + (n - k) as f64 * delta * signs[i] })
                        .collect()
                })
                .collect();
            (h, format!("slow-drift:{:e}", delta))
        }
    }
}
