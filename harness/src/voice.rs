//! Synthetic `.htsvoice` files: specification, serialiser and generator.

use std::path::PathBuf;
use std::sync::atomic::{AtomicU64, Ordering};
use std::sync::OnceLock;

use serde::Serialize;

use crate::bundled::bundled_bytes;
use crate::hts_reader::{read_voice, FileVoice};
use crate::tape::Tape;
use crate::util::scratch_dir;

#[derive(Debug, Clone, Serialize, PartialEq)]
pub enum Child {
    Node(usize),
    /// 1-based PDF index
    Pdf(usize),
}

#[derive(Debug, Clone, Serialize)]
pub struct NodeSpec {
    pub id: i64,
    /// index into ModelSpec::questions
    pub question: usize,
    pub no: Child,
    pub yes: Child,
}

#[derive(Debug, Clone, Serialize)]
pub struct TreeSpec {
    pub state: usize,
    /// empty => single-leaf tree using `leaf`
    pub nodes: Vec<NodeSpec>,
    pub leaf: usize,
    #[serde(skip)]
    pub pdfs: Vec<Vec<f32>>,
    pub npdf: usize,
    pub quoted: bool,
}

#[derive(Debug, Clone, Serialize)]
pub struct ModelSpec {
    pub prefix: String,
    #[serde(serialize_with = "ser_qnames")]
    pub questions: Vec<(String, Vec<String>)>,
    pub trees: Vec<TreeSpec>,
    pub pdf_len: usize,
}

#[derive(Debug, Clone, Serialize)]
pub struct StreamSpec {
    pub name: String,
    pub vector_length: usize,
    pub is_msd: bool,
    pub use_gv: bool,
    pub options: Vec<String>,
    pub windows: Vec<Vec<f64>>,
    pub model: ModelSpec,
    pub gv: Option<ModelSpec>,
}

#[derive(Debug, Clone, Serialize)]
pub struct VoiceSpec {
    pub sampling_frequency: usize,
    pub frame_period: usize,
    pub num_states: usize,
    pub gv_off_context: Vec<String>,
    pub fullcontext_format: String,
    pub fullcontext_version: String,
    pub duration: ModelSpec,
    pub streams: Vec<StreamSpec>,
    /// syntactic style of the written file: bit 0 shuffle header lines inside their section,
    /// bit 1 blank lines between header lines, bit 2 unquoted question patterns where legal,
    /// bit 3 extra blank lines between questions / trees, bit 4 extra spaces inside node lines,
    /// bit 5 a shared, de-duplicated window table (rows stored once, in reverse order of first use)
    pub style: u32,
    // derived, for oracles
    pub stage: usize,
    pub use_log_gain: bool,
    pub alpha: f64,
}

fn ser_qnames<S: serde::Serializer>(q: &[(String, Vec<String>)], s: S) -> Result<S::Ok, S::Error> {
    s.collect_seq(q.iter().map(|(n, _)| n))
}

fn leaf_name(prefix: &str, state: usize, idx: usize, quoted: bool) -> String {
    if quoted {
        format!("\"{}_s{}_{}\"", prefix, state, idx)
    } else {
        format!("{}_s{}_{}", prefix, state, idx)
    }
}

fn fmt_f(x: f64) -> String {
    // shortest representation that round-trips
    let s = format!("{}", x);
    if s.contains('.') || s.contains('e') || s.contains("inf") || s.contains("NaN") {
        s
    } else {
        format!("{}.0", s)
    }
}

impl ModelSpec {
    pub fn tree_text(&self) -> String {
        self.tree_text_styled(0)
    }

    pub fn tree_text_styled(&self, style: u32) -> String {
        let mut s = String::new();
        for (qi, (name, pats)) in self.questions.iter().enumerate() {
            let unq = style & 4 != 0 && qi % 2 == 1;
            let pats: Vec<String> = pats.iter().map(|p| if unq { p.clone() } else { format!("\"{}\"", p) }).collect();
            let sep = if style & 4 != 0 && qi % 3 == 0 { ", " } else { "," };
            s.push_str(&format!("QS {} {{ {} }}\n", name, pats.join(sep)));
            if style & 8 != 0 && qi % 2 == 0 {
                s.push('\n');
            }
        }
        s.push('\n');
        for t in &self.trees {
            s.push_str(&format!("{{*}}[{}]\n", t.state));
            if t.nodes.is_empty() {
                s.push_str(&format!("   {}\n", leaf_name(&self.prefix, t.state, t.leaf, t.quoted)));
            } else {
                s.push_str("{\n");
                for n in &t.nodes {
                    let ch = |c: &Child| match c {
                        Child::Node(i) => format!("{}", t.nodes[*i].id),
                        Child::Pdf(p) => leaf_name(&self.prefix, t.state, *p, t.quoted),
                    };
                    if style & 16 != 0 {
                        s.push_str(&format!("{}   {}  {}      {}\n", n.id, self.questions[n.question].0, ch(&n.no), ch(&n.yes)));
                    } else {
                        s.push_str(&format!(
                            " {:>4} {:<40} {:>14} {:>14} \n",
                            n.id,
                            self.questions[n.question].0,
                            ch(&n.no),
                            ch(&n.yes)
                        ));
                    }
                }
                s.push_str("}\n");
            }
            if style & 8 != 0 {
                s.push('\n');
            }
        }
        s
    }

    pub fn pdf_bytes(&self) -> Vec<u8> {
        let mut b = Vec::new();
        for t in &self.trees {
            b.extend_from_slice(&(t.pdfs.len() as u32).to_le_bytes());
        }
        for t in &self.trees {
            for p in &t.pdfs {
                debug_assert_eq!(p.len(), self.pdf_len);
                for v in p {
                    b.extend_from_slice(&v.to_le_bytes());
                }
            }
        }
        b
    }
}

impl VoiceSpec {
    pub fn to_bytes(&self) -> Vec<u8> {
        let mut data: Vec<u8> = Vec::new();
        let mut put = |blob: &[u8]| -> String {
            let start = data.len();
            data.extend_from_slice(blob);
            format!("{}-{}", start, data.len() - 1)
        };
        let dur_pdf = put(&self.duration.pdf_bytes());
        let dur_tree = put(self.duration.tree_text_styled(self.style).as_bytes());
        let mut win_pos = Vec::new();
        let win_text = |w: &Vec<f64>| format!("{} {}\n", w.len(), w.iter().map(|c| fmt_f(*c)).collect::<Vec<_>>().join(" "));
        if self.style & 32 != 0 {
            // a shared window table: every distinct row is stored once (last used first), and the
            // STREAM_WIN entries of all streams point into it - the ranges of one stream are then
            // neither adjacent nor ascending, and streams share rows
            let mut rows: Vec<String> = Vec::new();
            for s in &self.streams {
                for w in &s.windows {
                    let t = win_text(w);
                    if !rows.contains(&t) {
                        rows.push(t);
                    }
                }
            }
            let placed: Vec<(String, String)> = rows.iter().rev().map(|t| (t.clone(), put(t.as_bytes()))).collect();
            for s in &self.streams {
                let v: Vec<String> = s.windows.iter().map(|w| { let t = win_text(w); placed.iter().find(|(x, _)| *x == t).map(|(_, r)| r.clone()).unwrap_or_default() }).collect();
                win_pos.push(v.join(","));
            }
        } else {
            for s in &self.streams {
                let mut v = Vec::new();
                for w in &s.windows {
                    v.push(put(win_text(w).as_bytes()));
                }
                win_pos.push(v.join(","));
            }
        }
        let pdf_pos: Vec<String> = self.streams.iter().map(|s| put(&s.model.pdf_bytes())).collect();
        // streams that were clustered jointly have the same tree text (the prefix of a leaf name means
        // nothing): such text is stored once and both STREAM_TREE entries name the same range, while
        // every stream keeps its own PDF block
        let mut stored_trees: Vec<(String, String)> = Vec::new();
        let tree_pos: Vec<String> = self
            .streams
            .iter()
            .map(|s| {
                let text = s.model.tree_text_styled(self.style);
                if let Some((_, r)) = stored_trees.iter().find(|(t, _)| *t == text) {
                    return r.clone();
                }
                let r = put(text.as_bytes());
                stored_trees.push((text, r.clone()));
                r
            })
            .collect();
        let gv_pdf_pos: Vec<Option<String>> = self.streams.iter().map(|s| s.gv.as_ref().map(|g| put(&g.pdf_bytes()))).collect();
        let gv_tree_pos: Vec<Option<String>> = self
            .streams
            .iter()
            .map(|s| s.gv.as_ref().map(|g| put(g.tree_text_styled(self.style).as_bytes())))
            .collect();

        let mut global: Vec<String> = vec![
            "HTS_VOICE_VERSION:1.0".into(),
            format!("SAMPLING_FREQUENCY:{}", self.sampling_frequency),
            format!("FRAME_PERIOD:{}", self.frame_period),
            format!("NUM_STATES:{}", self.num_states),
            format!("NUM_STREAMS:{}", self.streams.len()),
            format!("STREAM_TYPE:{}", self.streams.iter().map(|s| s.name.clone()).collect::<Vec<_>>().join(",")),
            format!("FULLCONTEXT_FORMAT:{}", self.fullcontext_format),
            format!("FULLCONTEXT_VERSION:{}", self.fullcontext_version),
            format!("GV_OFF_CONTEXT:{}", self.gv_off_context.iter().map(|p| format!("\"{}\"", p)).collect::<Vec<_>>().join(",")),
            "COMMENT:".into(),
        ];
        let mut stream: Vec<String> = Vec::new();
        for s in &self.streams {
            stream.push(format!("VECTOR_LENGTH[{}]:{}", s.name, s.vector_length));
        }
        for s in &self.streams {
            stream.push(format!("IS_MSD[{}]:{}", s.name, s.is_msd as u8));
        }
        for s in &self.streams {
            stream.push(format!("NUM_WINDOWS[{}]:{}", s.name, s.windows.len()));
        }
        for s in &self.streams {
            stream.push(format!("USE_GV[{}]:{}", s.name, s.use_gv as u8));
        }
        for s in &self.streams {
            stream.push(format!("OPTION[{}]:{}", s.name, s.options.join(",")));
        }
        let mut position: Vec<String> = vec![format!("DURATION_PDF:{}", dur_pdf), format!("DURATION_TREE:{}", dur_tree)];
        for (s, w) in self.streams.iter().zip(&win_pos) {
            position.push(format!("STREAM_WIN[{}]:{}", s.name, w));
        }
        for (s, p) in self.streams.iter().zip(&pdf_pos) {
            position.push(format!("STREAM_PDF[{}]:{}", s.name, p));
        }
        for (s, p) in self.streams.iter().zip(&tree_pos) {
            position.push(format!("STREAM_TREE[{}]:{}", s.name, p));
        }
        for (s, p) in self.streams.iter().zip(&gv_pdf_pos) {
            if let Some(p) = p {
                position.push(format!("GV_PDF[{}]:{}", s.name, p));
            }
        }
        for (s, p) in self.streams.iter().zip(&gv_tree_pos) {
            if let Some(p) = p {
                position.push(format!("GV_TREE[{}]:{}", s.name, p));
            }
        }
        if self.style & 1 != 0 {
            // deterministic shuffle of the lines inside each section (the header is a key/value map)
            let rot = |v: &mut Vec<String>, k: usize| {
                let n = v.len();
                if n > 1 {
                    v.rotate_left(k % n);
                    v.swap(0, n / 2);
                }
            };
            rot(&mut global, 3 + self.num_states);
            rot(&mut stream, 2 + self.frame_period);
            rot(&mut position, 5 + self.num_states);
        }
        let mut h = String::new();
        for (tag, lines) in [("[GLOBAL]", &global), ("[STREAM]", &stream), ("[POSITION]", &position)] {
            h.push_str(tag);
            h.push('\n');
            for (i, l) in lines.iter().enumerate() {
                h.push_str(l);
                h.push('\n');
                if self.style & 2 != 0 && i % 3 == 1 && i + 1 < lines.len() {
                    h.push('\n');
                }
            }
        }
        h.push_str("[DATA]\n");
        let mut out = h.into_bytes();
        out.extend_from_slice(&data);
        out
    }
}

/// Write bytes to a fresh file in the run-private scratch directory.
pub fn write_temp(bytes: &[u8], tag: &str) -> PathBuf {
    static N: AtomicU64 = AtomicU64::new(0);
    let n = N.fetch_add(1, Ordering::Relaxed);
    let p = scratch_dir().join(format!("{}-{}.htsvoice", tag, n));
    std::fs::write(&p, bytes).expect("scratch dir must be writable");
    p
}

/// Write to a per-thread path that is REUSED by every call from that thread (different contents
/// under one path: exposes caches keyed by the path).
pub fn write_temp_reused(bytes: &[u8], tag: &str) -> PathBuf {
    let tid = format!("{:?}", std::thread::current().id()).replace(['(', ')'], "_");
    let p = scratch_dir().join(format!("{}-reused-{}.htsvoice", tag, tid));
    std::fs::write(&p, bytes).expect("scratch dir must be writable");
    p
}

/// Write to `<scratch>/<tag>-<n>/voice.htsvoice`: every file has the SAME file name and its own
/// directory (exposes anything keyed by the file name instead of the path).
pub fn write_temp_same_name(bytes: &[u8], tag: &str) -> PathBuf {
    static N: AtomicU64 = AtomicU64::new(0);
    let n = N.fetch_add(1, Ordering::Relaxed);
    let d = scratch_dir().join(format!("{}-dir-{}", tag, n));
    std::fs::create_dir_all(&d).expect("scratch dir must be writable");
    let p = d.join("voice.htsvoice");
    std::fs::write(&p, bytes).expect("scratch dir must be writable");
    p
}

pub struct TempVoice(pub PathBuf);
impl Drop for TempVoice {
    fn drop(&mut self) {
        let _ = std::fs::remove_file(&self.0);
        if self.0.file_name().map(|n| n == "voice.htsvoice").unwrap_or(false) {
            if let Some(d) = self.0.parent() {
                let _ = std::fs::remove_dir(d);
            }
        }
    }
}

/// The bundled voice as seen by the independent reader.
pub fn bundled_file_voice() -> &'static FileVoice {
    static V: OnceLock<FileVoice> = OnceLock::new();
    V.get_or_init(|| read_voice(bundled_bytes()).expect("independent reader must read the bundled voice"))
}

/// All distinct (name, patterns) questions of the bundled voice, plus synthetic questions that
/// need the regex fallback *and* can match real labels.
pub fn question_pool() -> &'static (Vec<(String, Vec<String>)>, Vec<usize>) {
    static Q: OnceLock<(Vec<(String, Vec<String>)>, Vec<usize>)> = OnceLock::new();
    Q.get_or_init(|| {
        let v = bundled_file_voice();
        let mut seen = std::collections::BTreeMap::new();
        let mut add = |m: &crate::hts_reader::FileModel| {
            for name in &m.question_order {
                seen.entry(name.clone()).or_insert_with(|| m.questions[name].clone());
            }
        };
        add(&v.duration);
        for s in &v.streams {
            add(&s.model);
            if let Some(g) = &s.gv {
                add(g);
            }
        }
        let mut pool: Vec<(String, Vec<String>)> = seen.into_iter().collect();
        // questions on two positions at once: not expressible as a single-position question,
        // so the loader must fall back to regex matching
        let synth: Vec<(String, Vec<String>)> = vec![
            ("Syn-LC_a_o".into(), vec!["*^a-*+o=*".into()]),
            ("Syn-LC_vowel_sil".into(), vec!["*^a-sil+*".into(), "*^i-sil+*".into(), "*^u-sil+*".into(), "*^o-sil+*".into(), "*^e-sil+*".into()]),
            // NOTE: "*-k+*/A:-?+*" (phoneme + A1 in one pattern) is deliberately NOT used: the
            // dependency jlabel-question 0.1.4 accepts it as a single-position phoneme question
            // with the literal "k+*/A:-?" (never true) instead of rejecting it for the regex
            // fallback. Such patterns are outside C04's quantifier (real questions of the bundled
            // voice), see DESIGN.md "observations outside the properties".
            ("Syn-Two_Field".into(), vec!["*-o+*/F:?_1#*".into(), "*-a+*/F:?_2#*".into()]),
            ("Syn-Mixed_Pos".into(), vec!["*^sil-*".into(), "*=sil/A:*".into()]),
        ];
        let mut fallback = Vec::new();
        for (i, (name, _)) in pool.iter().enumerate() {
            if name.starts_with("C-Acc_Pau_R-Acc") {
                fallback.push(i);
            }
        }
        for q in synth {
            fallback.push(pool.len());
            pool.push(q);
        }
        (pool, fallback)
    })
}

#[derive(Debug, Clone, Copy, PartialEq)]
pub struct GenOpts {
    /// force the spectrum family: None = generated, Some(false) = MCP (stage 0), Some(true) = LSP
    pub lsp: Option<bool>,
    pub max_states: usize,
    pub max_depth: usize,
    /// keep PDFs small (fast synthesis)
    pub small: bool,
    pub allow_two_streams: bool,
}

impl Default for GenOpts {
    fn default() -> Self {
        Self {
            lsp: None,
            max_states: 7,
            max_depth: 4,
            small: true,
            allow_two_streams: true,
        }
    }
}

pub const WIN_STATIC: &[f64] = &[1.0];
pub const WIN_D3: &[f64] = &[-0.5, 0.0, 0.5];
pub const WIN_A3: &[f64] = &[1.0, -2.0, 1.0];
pub const WIN_D5: &[f64] = &[-0.2, -0.1, 0.0, 0.1, 0.2];
pub const WIN_A5: &[f64] = &[0.285714, -0.142857, -0.285714, -0.142857, 0.285714];

/// Window sets, simplest first.
pub fn gen_windows(t: &mut Tape) -> Vec<Vec<f64>> {
    match t.weighted(&[8, 8, 16, 4, 4, 2, 2, 1]) {
        // an even width (backward difference over t-1 and t: the extra tap lies left of the centre)
        7 => vec![WIN_STATIC.to_vec(), vec![-1.0, 1.0]],
        0 => vec![WIN_STATIC.to_vec()],
        1 => vec![WIN_STATIC.to_vec(), WIN_D3.to_vec()],
        2 => vec![WIN_STATIC.to_vec(), WIN_D3.to_vec(), WIN_A3.to_vec()],
        3 => vec![WIN_STATIC.to_vec(), WIN_D5.to_vec(), WIN_A5.to_vec()],
        4 => vec![WIN_STATIC.to_vec(), WIN_D3.to_vec(), WIN_A5.to_vec()],
        // the widest window need not be the last one
        5 => vec![WIN_STATIC.to_vec(), WIN_D5.to_vec(), WIN_A3.to_vec()],
        _ => vec![WIN_STATIC.to_vec(), WIN_D5.to_vec()],
    }
}

/// Now and then replace one mean (of a dynamic feature, or any mean of a mel-cepstral stream; never
/// a variance, an LSP / log-F0 / low-pass static mean or a voicing weight, so synthesis stays well-behaved) by a float32 with a special bit pattern:
/// +0.0, -0.0 or a subnormal. Loading must preserve the bits.
fn special_entries(t: &mut Tape, mut p: Vec<f32>, protect: usize) -> Vec<f32> {
    // PDFs are [means | variances | msd?]; the first `protect` means are static features
    let half = p.len() / 2;
    if t.chance(0.15) && protect < half {
        let k = protect + t.below(half - protect);
        p[k] = *t.pick(&[-0.0f32, 0.0, f32::from_bits(1), -f32::from_bits(0x0000_7fff)]);
    }
    p
}

/// Random binary decision tree with up to 2^depth leaves; PDFs are assigned to leaves in a
/// generated permutation; node ids are 0 for the root and negative, non-contiguous otherwise.
fn gen_tree(t: &mut Tape, state: usize, nq: usize, max_depth: usize, protect: usize, mut pdf: impl FnMut(&mut Tape) -> Vec<f32>) -> TreeSpec {
    let quoted = !t.chance(0.3);
    // number of internal nodes
    let max_nodes = (1usize << max_depth) - 1;
    // rare: a long chain (one leaf per node), deeper than any balanced tree of the same size -
    // real voices have strongly unbalanced trees (the bundled voice reaches depth 23)
    let mut chain = false;
    let n_internal = match t.weighted(&[8, 12, 12, if max_depth >= 3 && nq > 0 { 1 } else { 0 }]) {
        0 => 0,
        1 => t.urange(1, 3.min(max_nodes)),
        2 => t.urange(1, max_nodes.min(12)),
        _ => {
            chain = true;
            if t.chance(0.5) { t.urange(33, 48) } else { t.urange(13, 40) }
        }
    };
    if n_internal == 0 || nq == 0 {
        let npdf = t.urange(1, 3);
        let leaf = t.urange(1, npdf);
        let pdfs = (0..npdf).map(|_| { let p = pdf(t); special_entries(t, p, protect) }).collect();
        return TreeSpec { state, nodes: vec![], leaf, pdfs, npdf, quoted };
    }
    // grow: start with root having two open slots; repeatedly turn a random open slot into a node
    #[derive(Clone)]
    struct N {
        children: [Option<usize>; 2],
        depth: usize,
    }
    let mut nodes = vec![N { children: [None, None], depth: 1 }];
    let mut open: Vec<(usize, usize)> = vec![(0, 0), (0, 1)];
    if chain {
        open.clear();
        for i in 0..n_internal - 1 {
            // the chain mostly continues on the "no" side, which most labels take
            let side = if t.chance(0.8) { 0 } else { 1 };
            nodes.push(N { children: [None, None], depth: i + 2 });
            nodes[i].children[side] = Some(i + 1);
        }
    }
    while nodes.len() < n_internal && !open.is_empty() {
        let k = t.below(open.len());
        let (p, side) = open.remove(k);
        if nodes[p].depth >= max_depth {
            continue;
        }
        let idx = nodes.len();
        nodes.push(N { children: [None, None], depth: nodes[p].depth + 1 });
        nodes[p].children[side] = Some(idx);
        open.push((idx, 0));
        open.push((idx, 1));
    }
    let n = nodes.len();
    let nleaves = n + 1;
    // leaf -> pdf permutation (Fisher-Yates driven by the tape)
    let mut perm: Vec<usize> = (1..=nleaves).collect();
    for i in (1..nleaves).rev() {
        let j = t.below(i + 1);
        perm.swap(i, j);
    }
    // tied leaves: several leaves may name the same PDF (a legal tree; the PDFs that lose their leaf
    // simply stay unused)
    if nleaves >= 3 && t.chance(0.3) {
        for _ in 0..t.urange(1, 3) {
            let j = t.urange(1, nleaves - 1);
            let i = t.below(j);
            perm[j] = perm[i];
        }
    }
    let extra = t.below(3); // unused PDFs at the end
    let npdf = nleaves + extra;
    let mut next_leaf = 0;
    let mut id_step = 1;
    let mut ids = vec![0i64; n];
    let mut cur = 0i64;
    for (i, id) in ids.iter_mut().enumerate().skip(1) {
        if i % 3 == 0 {
            id_step = 1 + t.below(3) as i64;
        }
        cur -= id_step;
        *id = cur;
    }
    let chain_yes_side: Vec<bool> = if chain { (0..nq).map(|_| t.chance(0.1)).collect() } else { vec![] };
    let mut specs = Vec::with_capacity(n);
    for node in nodes.iter() {
        let mut ch = |c: Option<usize>| match c {
            Some(j) => Child::Node(j),
            None => {
                let p = perm[next_leaf];
                next_leaf += 1;
                Child::Pdf(p)
            }
        };
        let mut no = ch(node.children[0]);
        let mut yes = ch(node.children[1]);
        let question = t.below(nq);
        if chain {
            // keep the chain walkable: every question continues on one fixed side wherever it is
            // asked (mostly "no", the answer most labels give to a specific question)
            let want_yes = chain_yes_side[question];
            let cont_is_yes = matches!(yes, Child::Node(_));
            let has_cont = cont_is_yes || matches!(no, Child::Node(_));
            if has_cont && cont_is_yes != want_yes {
                std::mem::swap(&mut no, &mut yes);
            }
        }
        specs.push(NodeSpec { id: 0, question, no, yes });
    }
    for (s, id) in specs.iter_mut().zip(&ids) {
        s.id = *id;
    }
    let pdfs = (0..npdf).map(|_| { let p = pdf(t); special_entries(t, p, protect) }).collect();
    TreeSpec { state, nodes: specs, leaf: 0, pdfs, npdf, quoted }
}

fn gen_questions(t: &mut Tape, n: usize) -> Vec<(String, Vec<String>)> {
    let (pool, fallback) = question_pool();
    let mut out: Vec<(String, Vec<String>)> = Vec::new();
    for _ in 0..n {
        let idx = if t.chance(0.15) { fallback[t.below(fallback.len())] } else { t.below(pool.len()) };
        if !out.iter().any(|(nm, _)| *nm == pool[idx].0) {
            out.push(pool[idx].clone());
        }
    }
    out
}

#[allow(clippy::too_many_arguments)]
fn gen_model(
    t: &mut Tape,
    prefix: &str,
    states: &[usize],
    pdf_len: usize,
    max_depth: usize,
    protect: usize,
    mut pdf: impl FnMut(&mut Tape, usize) -> Vec<f32>,
) -> ModelSpec {
    let nq = t.urange(1, 10);
    let mut questions = gen_questions(t, nq);
    // Question names are local to a tree section: now and then use short generic names, so that
    // different sections of one file define the same name with different patterns.
    if t.chance(0.3) {
        for (i, q) in questions.iter_mut().enumerate() {
            q.0 = format!("Q{}", i + 1);
        }
    }
    let mut trees: Vec<TreeSpec> = states
        .iter()
        .map(|s| gen_tree(t, *s, questions.len(), max_depth, protect, |t| pdf(t, *s)))
        .collect();
    // the trees of a section may be listed in any order; the k-th PDF block belongs to the k-th
    // LISTED tree (the serialiser writes both in this order)
    if trees.len() >= 2 && t.chance(0.2) {
        for i in (1..trees.len()).rev() {
            let j = t.below(i + 1);
            trees.swap(i, j);
        }
    }
    ModelSpec { prefix: prefix.to_string(), questions, trees, pdf_len }
}

/// Generate a voice whose synthesis filter stays inside its stable range by construction.
pub fn gen_voice(t: &mut Tape, o: GenOpts) -> VoiceSpec {
    let sampling_frequency = *t.pick(&[16000usize, 8000, 22050, 44100, 48000, 96000]);
    let frame_period = *t.pick(&[80usize, 40, 120, 240, 1, 7, 480]);
    let num_states = match t.weighted(&[3, 2, 2]) {
        0 => t.urange(1, 3.min(o.max_states)),
        1 => 5.min(o.max_states),
        _ => t.urange(1, o.max_states),
    };
    let lsp = o.lsp.unwrap_or_else(|| t.chance(0.35));
    let three = !o.allow_two_streams || t.chance(0.6);
    let states: Vec<usize> = (2..2 + num_states).collect();
    let alpha = *t.pick(&[0.42, 0.0, 0.55, 0.1, 0.35]);
    let gv_off_context = match t.below(3) {
        0 => vec!["*-sil+*".to_string(), "*-pau+*".to_string()],
        1 => vec!["*-sil+*".to_string()],
        _ => vec!["*-pau+*".to_string(), "*-sil+*".to_string(), "*-cl+*".to_string()],
    };

    // duration: small means so that utterances stay short
    let dmax = if o.small { 4.0 } else { 12.0 };
    let ns = num_states;
    // degenerate but loadable: a duration model without any variance (deterministic durations)
    let zero_dur_var = t.chance(0.03);
    let duration = gen_model(t, "dur", &[2], ns * 2, o.max_depth, usize::MAX, |t, _| {
        let mut v = Vec::with_capacity(ns * 2);
        for _ in 0..ns {
            v.push(t.uniform(0.3, dmax) as f32);
        }
        for _ in 0..ns {
            v.push(if zero_dur_var { 0.0 } else { t.log_uniform(0.05, 20.0) as f32 });
        }
        v
    });

    // spectrum
    let spec_len = if o.small { t.urange(2, 12) } else { t.urange(2, 35) };
    let spec_windows = gen_windows(t);
    let nw = spec_windows.len();
    let (stage, use_log_gain) = if lsp { (t.urange(1, 4), t.chance(0.5)) } else { (0, false) };
    let spec_pdf = move |t: &mut Tape, _s: usize| {
        let l = spec_len;
        let mut lsp_gain = 1.0f64;
        let mut mean = vec![0f32; l * nw];
        let mut var = vec![0f32; l * nw];
        if lsp {
            // gain then increasing frequencies near the uniform grid
            let m = l - 1;
            // gain: mostly around 1, sometimes a quiet voice (the gain's own variance scales with it
            // below, so that generated trajectories keep a positive linear gain)
            let g = if t.chance(0.85) { t.uniform(0.5, 2.0) } else { t.log_uniform(0.005, 0.1) };
            lsp_gain = g;
            mean[0] = if use_log_gain { g.ln() as f32 } else { g as f32 };
            for i in 1..=m {
                let base = std::f64::consts::PI * i as f64 / (m as f64 + 1.0);
                let jit = t.uniform(-0.2, 0.2) * std::f64::consts::PI / (m as f64 + 1.0);
                mean[i] = (base + jit) as f32;
            }
        } else {
            mean[0] = t.uniform(-1.0, 2.0) as f32;
            let mut scale = t.uniform(0.1, 0.6);
            for (i, mi) in mean.iter_mut().enumerate().take(l).skip(1) {
                *mi = (t.gauss() * scale) as f32;
                if i >= 1 {
                    scale *= 0.75;
                }
            }
        }
        for w in 1..nw {
            for i in 0..l {
                mean[w * l + i] = (t.gauss() * 0.01) as f32;
            }
        }
        for w in 0..nw {
            for i in 0..l {
                var[w * l + i] = if w == 0 { t.log_uniform(0.01, 0.5) as f32 } else { t.log_uniform(0.005, 0.2) as f32 };
            }
        }
        if lsp && !use_log_gain && lsp_gain < 0.5 {
            var[0] = ((0.05 * lsp_gain) * (0.05 * lsp_gain)) as f32;
        }
        mean.extend(var);
        mean
    };
    let spec_gv = t.chance(0.5);
    let mut options = Vec::new();
    if alpha != 0.0 || t.chance(0.5) {
        options.push(format!("ALPHA={}", fmt_f(alpha)));
    }
    if lsp {
        options.push(format!("GAMMA={}", stage));
        // LN_GAIN=0 is the default: a file may leave the entry out
        if use_log_gain || t.chance(0.5) {
            options.push(format!("LN_GAIN={}", use_log_gain as u8));
        }
    } else if t.chance(0.3) {
        options.push("GAMMA=0".to_string());
    }
    if !lsp && t.chance(0.15) {
        // legal but pointless for a mel-cepstral voice: the flag must still be read
        options.push(format!("LN_GAIN={}", t.below(2)));
    }
    // the order of the options in the header is arbitrary
    for i in (1..options.len()).rev() {
        let j = t.below(i + 1);
        options.swap(i, j);
    }
    let spec_name = if lsp { "LSP" } else { "MCP" };
    let spec_model = gen_model(t, if lsp { "lsp" } else { "mgc" }, &states, spec_len * nw * 2, o.max_depth, if lsp { spec_len } else { 0 }, spec_pdf);
    // GV statistics consistent with the stream's own PDFs (variance of the static means over all
    // PDFs, times a factor in [0.5,1.5]) so that GV does not push parameters out of the stable range
    let static_var = |m: &ModelSpec, l: usize, k: usize| -> f64 {
        let vals: Vec<f64> = m.trees.iter().flat_map(|t| t.pdfs.iter().map(move |p| p[k] as f64)).collect();
        let _ = l;
        let mean = vals.iter().sum::<f64>() / vals.len().max(1) as f64;
        vals.iter().map(|v| (v - mean) * (v - mean)).sum::<f64>() / vals.len().max(1) as f64
    };
    let spec_gv_model = if spec_gv {
        let vars: Vec<f64> = (0..spec_len).map(|k| static_var(&spec_model, spec_len, k)).collect();
        Some(gen_model(t, "gv_mgc", &[2], spec_len * 2, 2, usize::MAX, |t, _| {
            let means: Vec<f32> = vars.iter().map(|v| (v * t.uniform(0.5, 1.5)).max(1e-6) as f32).collect();
            let mut v = means.clone();
            v.extend(means.iter().map(|m| (0.3 * m) * (0.3 * m)).map(|x| x.max(1e-12)));
            v
        }))
    } else {
        None
    };
    let mut streams = vec![StreamSpec {
        name: spec_name.to_string(),
        vector_length: spec_len,
        is_msd: false,
        use_gv: spec_gv,
        options,
        windows: spec_windows,
        model: spec_model,
        gv: spec_gv_model,
    }];

    // LF0
    let lf0_windows = gen_windows(t);
    let lnw = lf0_windows.len();
    let lf0_center = t.uniform(4.3, 5.6);
    let lf0_gv = t.chance(0.5);
    let lf0_model = gen_model(t, "lf0", &states, lnw * 2 + 1, o.max_depth, 1, |t, _| {
        let mut v = vec![0f32; lnw * 2 + 1];
        v[0] = (lf0_center + t.uniform(-0.4, 0.4)) as f32;
        for w in 1..lnw {
            v[w] = (t.gauss() * 0.01) as f32;
        }
        for w in 0..lnw {
            v[lnw + w] = if w == 0 { t.log_uniform(0.001, 0.1) as f32 } else { t.log_uniform(1e-4, 0.02) as f32 };
        }
        v[2 * lnw] = match t.weighted(&[12, 8, 12, 2, 2, 1]) {
            0 => 0.95,
            1 => 0.05,
            2 => t.unit() as f32,
            3 => 0.0,
            4 => 1.0,
            // a weight that is tiny but not zero (a subnormal f32): above a threshold of 0
            _ => *t.pick(&[1e-40f32, 1e-45, 1.0e-38]),
        };
        v
    });
    let lf0_gv_model = if lf0_gv {
        let v = static_var(&lf0_model, 1, 0);
        Some(gen_model(t, "gv_lf0", &[2], 2, 2, usize::MAX, |t, _| {
            let m = (v * t.uniform(0.5, 1.5)).max(1e-5) as f32;
            vec![m, ((0.3 * m) * (0.3 * m)).max(1e-12)]
        }))
    } else {
        None
    };
    streams.push(StreamSpec {
        name: "LF0".to_string(),
        vector_length: 1,
        is_msd: true,
        use_gv: lf0_gv,
        options: vec![],
        windows: lf0_windows,
        model: lf0_model,
        gv: lf0_gv_model,
    });

    if three {
        let lpf_len = 1 + 2 * t.below(if o.small { 4 } else { 16 });
        let lpf_windows = if t.chance(0.2) { gen_windows(t) } else { vec![WIN_STATIC.to_vec()] };
        let pnw = lpf_windows.len();
        let lpf_model = gen_model(t, "lpf", &states, lpf_len * pnw * 2, 2, lpf_len, |t, _| {
            let mut v = vec![0f32; lpf_len * pnw * 2];
            let c = lpf_len / 2;
            for i in 0..lpf_len {
                let d = (i as f64 - c as f64).abs();
                v[i] = (t.uniform(0.2, 1.0) / (1.0 + d) / (lpf_len as f64).sqrt()) as f32 * if t.chance(0.2) { -1.0 } else { 1.0 };
            }
            for w in 1..pnw {
                for i in 0..lpf_len {
                    v[w * lpf_len + i] = (t.gauss() * 0.001) as f32;
                }
            }
            for k in 0..lpf_len * pnw {
                v[lpf_len * pnw + k] = t.log_uniform(0.001, 0.1) as f32;
            }
            v
        });
        // one low-pass stream in eight was clustered JOINTLY with the spectrum: same questions, same
        // trees (same text in the file, stored once), its own distributions
        let lpf_model = if t.chance(0.125) {
            let mcp = &streams[0].model;
            let trees: Vec<TreeSpec> = mcp
                .trees
                .iter()
                .map(|tr| {
                    let own = lpf_model.trees.iter().find(|x| x.state == tr.state).unwrap_or(&lpf_model.trees[0]);
                    let mut tied = tr.clone();
                    tied.pdfs = (0..tr.pdfs.len()).map(|i| own.pdfs[i % own.pdfs.len()].iter().map(|v| v * (1.0 + 0.05 * i as f32)).collect()).collect();
                    tied
                })
                .collect();
            ModelSpec { prefix: mcp.prefix.clone(), questions: mcp.questions.clone(), trees, pdf_len: lpf_model.pdf_len }
        } else {
            lpf_model
        };
        // rare but supported: GV on the low-pass stream as well
        let lpf_gv = t.chance(0.25);
        let lpf_gv_model = if lpf_gv {
            let vars: Vec<f64> = (0..lpf_len).map(|k| static_var(&lpf_model, lpf_len, k)).collect();
            Some(gen_model(t, "gv_lpf", &[2], lpf_len * 2, 2, usize::MAX, |t, _| {
                let means: Vec<f32> = vars.iter().map(|v| (v * t.uniform(0.5, 1.5)).max(1e-8) as f32).collect();
                let mut v = means.clone();
                v.extend(means.iter().map(|m| (0.3 * m) * (0.3 * m)).map(|x| x.max(1e-16)));
                v
            }))
        } else {
            None
        };
        streams.push(StreamSpec {
            name: "LPF".to_string(),
            vector_length: lpf_len,
            is_msd: false,
            use_gv: lpf_gv,
            options: vec![],
            windows: lpf_windows,
            model: lpf_model,
            gv: lpf_gv_model,
        });
    }

    VoiceSpec {
        sampling_frequency,
        frame_period,
        num_states,
        gv_off_context,
        fullcontext_format: "HTS_TTS_JPN".into(),
        // (independent of HTS_VOICE_VERSION, which the serialiser writes as 1.0)
        fullcontext_version: (*t.pick(&["1.0", "1.0", "1.1", "2.0", "0.9"])).into(),
        duration,
        streams,
        style: if t.chance(0.5) { t.below(64) as u32 } else { 0 },
        stage,
        use_log_gain,
        alpha,
    }
}

/// Offsets (relative to the data section) of PDF blocks of the bundled voice, for perturbed copies.
pub struct BundledLayout {
    pub data_start: usize,
    /// (name, pdf byte range inclusive, pdf_len, ntrees)
    pub pdf_blocks: Vec<(String, (usize, usize), usize, usize)>,
}

pub fn bundled_layout() -> &'static BundledLayout {
    static L: OnceLock<BundledLayout> = OnceLock::new();
    L.get_or_init(|| {
        let b = bundled_bytes();
        let pos = b.windows(8).position(|w| w == b"\n[DATA]\n").expect("[DATA]") + 8;
        let head = std::str::from_utf8(&b[..pos]).unwrap();
        let v = bundled_file_voice();
        let find = |key: &str| -> (usize, usize) {
            let line = head.lines().find(|l| l.starts_with(key)).unwrap();
            let (_, r) = line.split_once(':').unwrap();
            let (a, bb) = r.split_once('-').unwrap();
            (a.parse().unwrap(), bb.parse().unwrap())
        };
        let mut blocks = vec![("DUR".to_string(), find("DURATION_PDF:"), v.num_states * 2, v.duration.trees.len())];
        for s in &v.streams {
            blocks.push((
                s.name.clone(),
                find(&format!("STREAM_PDF[{}]:", s.name)),
                s.vector_length * s.num_windows * 2 + s.is_msd as usize,
                s.model.trees.len(),
            ));
        }
        BundledLayout { data_start: pos, pdf_blocks: blocks }
    })
}

/// A copy of the bundled voice whose GV means (both GV streams) are multiplied by `factor`;
/// everything else is identical, so it combines with the bundled voice and its perturbed copies.
pub fn gv_scaled_bundled(factor: f64) -> Vec<u8> {
    let mut out = bundled_bytes().to_vec();
    let l = bundled_layout();
    let head = std::str::from_utf8(&out[..l.data_start]).unwrap().to_string();
    let v = bundled_file_voice();
    for s in &v.streams {
        let Some(g) = &s.gv else { continue };
        let key = format!("GV_PDF[{}]:", s.name);
        let Some(line) = head.lines().find(|x| x.starts_with(&key)) else { continue };
        let (_, r) = line.split_once(':').unwrap();
        let (a, _) = r.split_once('-').unwrap();
        let a: usize = a.parse().unwrap();
        let ntrees = g.trees.len();
        let base = l.data_start + a;
        let total: usize = (0..ntrees).map(|i| u32::from_le_bytes(out[base + 4 * i..base + 4 * i + 4].try_into().unwrap()) as usize).sum();
        let fl = base + 4 * ntrees;
        let len = s.vector_length;
        for p in 0..total {
            for k in 0..len {
                let off = fl + 4 * (p * 2 * len + k);
                let x = f32::from_le_bytes(out[off..off + 4].try_into().unwrap()) as f64;
                out[off..off + 4].copy_from_slice(&((x * factor) as f32).to_le_bytes());
            }
        }
    }
    out
}

/// A copy of the bundled voice with the f32 entries of its PDF blocks rewritten: static means
/// jittered, voicing weights redrawn, variances scaled. Metadata is unchanged, so the copy can be
/// combined with the original in one voice set. `strength` in [0,1].
pub fn perturbed_bundled(t: &mut Tape, strength: f64) -> Vec<u8> {
    let mut out = bundled_bytes().to_vec();
    let l = bundled_layout();
    let seed0 = t.raw() as u64;
    let redraw_msd = t.chance(0.5);
    let var_scale = t.log_uniform(0.5, 2.0);
    let dur_scale = t.uniform(0.8, 1.25);
    // cheap deterministic per-entry jitter derived from one tape word (the blocks hold ~200k floats)
    let mut state = seed0.wrapping_mul(0x9E37_79B9_7F4A_7C15) | 1;
    let mut next = move || {
        state ^= state << 13;
        state ^= state >> 7;
        state ^= state << 17;
        (state >> 11) as f64 / (1u64 << 53) as f64
    };
    for (name, (a, _b), pdf_len, ntrees) in &l.pdf_blocks {
        let base = l.data_start + a;
        let counts: Vec<usize> = (0..*ntrees)
            .map(|i| u32::from_le_bytes(out[base + 4 * i..base + 4 * i + 4].try_into().unwrap()) as usize)
            .collect();
        let total: usize = counts.iter().sum();
        let fl = base + 4 * ntrees;
        let half = (pdf_len - (name == "LF0") as usize) / 2;
        for p in 0..total {
            for k in 0..*pdf_len {
                let off = fl + 4 * (p * pdf_len + k);
                let v = f32::from_le_bytes(out[off..off + 4].try_into().unwrap()) as f64;
                let nv = if name == "DUR" {
                    if k < half { v * dur_scale } else { v * var_scale }
                } else if name == "LF0" && k == pdf_len - 1 {
                    if redraw_msd { next() } else { (v + strength * 0.3 * (next() - 0.5)).clamp(0.0, 1.0) }
                } else if k < half {
                    // means: jitter proportional to the standard deviation
                    let sd_off = fl + 4 * (p * pdf_len + k + half);
                    let var = f32::from_le_bytes(out[sd_off..sd_off + 4].try_into().unwrap()) as f64;
                    v + strength * (next() - 0.5) * var.abs().sqrt()
                } else {
                    v * var_scale
                };
                out[off..off + 4].copy_from_slice(&(nv as f32).to_le_bytes());
            }
        }
    }
    out
}

/// A voice with exactly the same metadata (header, windows, question lists, pdf shapes) as
/// `base` but different trees (questions re-drawn, leaves re-assigned) and jittered PDFs, so the
/// two can be combined in one voice set.
pub fn variant_voice(t: &mut Tape, base: &VoiceSpec) -> VoiceSpec {
    fn vary_model(t: &mut Tape, m: &mut ModelSpec, is_msd: bool) {
        let nq = m.questions.len();
        // question lists are not metadata: now and then this voice defines a question NAME of the
        // base voice with another pattern list (what a question means is local to its file)
        if nq > 0 && t.chance(0.3) {
            let (pool, _) = question_pool();
            for _ in 0..t.urange(1, 2) {
                let k = t.below(nq);
                let other = &pool[t.below(pool.len())];
                m.questions[k].1 = other.1.clone();
            }
        }
        let len = m.pdf_len;
        // the order in which a file lists its trees is its own business too: this voice may list
        // the state trees (with their PDF blocks) in another order than the base voice
        if m.trees.len() >= 2 && t.chance(0.3) {
            for i in (1..m.trees.len()).rev() {
                let j = t.below(i + 1);
                m.trees.swap(i, j);
            }
        }
        for tree in m.trees.iter_mut() {
            for n in tree.nodes.iter_mut() {
                if nq > 0 && t.chance(0.5) {
                    n.question = t.below(nq);
                }
            }
            // permute leaf assignment: swap the PDF numbers of two random leaves a few times
            let leaves: Vec<(usize, bool)> = tree
                .nodes
                .iter()
                .enumerate()
                .flat_map(|(i, n)| {
                    let mut v = vec![];
                    if matches!(n.no, Child::Pdf(_)) {
                        v.push((i, false));
                    }
                    if matches!(n.yes, Child::Pdf(_)) {
                        v.push((i, true));
                    }
                    v
                })
                .collect();
            if leaves.len() >= 2 {
                for _ in 0..2 {
                    let a = leaves[t.below(leaves.len())];
                    let b = leaves[t.below(leaves.len())];
                    let get = |nodes: &Vec<NodeSpec>, x: (usize, bool)| if x.1 { nodes[x.0].yes.clone() } else { nodes[x.0].no.clone() };
                    let (ca, cb) = (get(&tree.nodes, a), get(&tree.nodes, b));
                    if a.1 { tree.nodes[a.0].yes = cb } else { tree.nodes[a.0].no = cb }
                    if b.1 { tree.nodes[b.0].yes = ca } else { tree.nodes[b.0].no = ca }
                }
            } else if tree.nodes.is_empty() && tree.npdf > 1 {
                tree.leaf = t.urange(1, tree.npdf);
            }
            let half = (len - is_msd as usize) / 2;
            for p in tree.pdfs.iter_mut() {
                for (k, v) in p.iter_mut().enumerate() {
                    if is_msd && k == len - 1 {
                        *v = (*v + t.uniform(-0.3, 0.3) as f32).clamp(0.0, 1.0);
                    } else if k < half {
                        *v += (t.uniform(-0.1, 0.1) * (1.0 + v.abs() as f64 * 0.1)) as f32;
                    } else {
                        *v *= t.uniform(0.7, 1.4) as f32;
                    }
                }
            }
        }
    }
    let mut v = base.clone();
    vary_model(t, &mut v.duration, false);
    for d in v.duration.trees.iter_mut().flat_map(|t| t.pdfs.iter_mut()) {
        let half = d.len() / 2;
        for x in d.iter_mut().take(half) {
            *x = x.max(0.3);
        }
    }
    for s in v.streams.iter_mut() {
        vary_model(t, &mut s.model, s.is_msd);
        if let Some(g) = s.gv.as_mut() {
            vary_model(t, g, false);
            for d in g.trees.iter_mut().flat_map(|t| t.pdfs.iter_mut()) {
                for x in d.iter_mut() {
                    *x = x.abs().max(1e-12);
                }
            }
        }
    }
    v
}
