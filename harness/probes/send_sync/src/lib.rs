//! Compile-time probe for C03: the engine must be shareable across threads.
fn send_sync_clone<T: Send + Sync + Clone>() {}
fn send<T: Send>() {}
pub fn probe() {
    send_sync_clone::<jbonsai::Engine>();
    send_sync_clone::<jbonsai::Condition>();
    send_sync_clone::<jbonsai::model::VoiceSet>();
    send::<jbonsai::speech::SpeechGenerator>();
}
